"""C14 — dead-code elimination preserves observable behaviour (DESIGN §6 C14, pattern P3: verified checker)."""
import re

ID = "C14"
HARNESS_BIN = "c14"
DRIVER = "fvd_c14"
LEAN_TARGETS = ["FalconProofs.Props.C14", "fvd_c14"]
PROPS_MODULE = "FalconProofs.Props.C14"
LEVEL = "translation_validation"
DRIVER_TAKES_ANSWER = True
RULE = ("request = one IL function f (FIL): 9 hand-written shapes (use reading two scalars, use by a store, "
        "intrinsics with declared/undeclared effects, dead load, unreachable block, guard-only use, one name at two widths) plus random "
        "functions from harness/src/genil.rs in six configurations (default; dense = 4 names, blocks of up to 8 "
        "instructions; straight-line; with indirect branches; intrinsic-heavy; arbitrary non-partitioning guards), "
        "1-8 blocks, loops, self-loops, empty and unreachable blocks, loads/stores; plus functions lifted by falcon's amd64 "
        "translator from random sequences of 27 real instruction encodings with conditional jumps and loops "
        "(flag computations, push/pop, syscall/cpuid/rdtsc intrinsics). falcon's "
        "analysis::dead_code_elimination(f) = g is judged by the Lean checker dceCheck f g (proved sound in "
        "Props/C14.lean); f and g are also executed side by side by falcon's executor (harness) and, when the "
        "checker rejects, by the Lean executor model from 24 initial states. distinct = distinct request line; "
        "non-trivial = falcon replaced at least one instruction by nop (removed>=1) or produced no function")
TRUSTED = [
    "specification: the IL step relation FStep/execute of FalconModel/Exec.lean (its agreement with falcon's executor is property C07)",
    "checker: FalconModel/DceCert.lean dceCheck (kernel-proved sound); the certificate computation is untrusted",
    "correspondence: harness/src/bin/c14.rs (calls the real dead_code_elimination, prints through fil.rs) + lean/Drivers/C14.lean + check",
]
ASSUMPTIONS = [
    "the theorem covers runs inside one function up to the first fault, indirect branch or intrinsic (FStep), from every initial state",
    "names are identified as the executor's state does (by name); generated functions use one width per name",
]


def classify(c):
    """expected verdict: valid.  invalid with a concrete diverging run (or no function at all) => the property
    fails on this input; invalid without one => the checker could not justify falcon's output and no failing
    input was found (correspondence broken); a difference seen only by falcon's own executor while the
    checker says valid contradicts the model => broken."""
    v = c.model
    if v.startswith("valid"):
        if "x=diff" in c.impl:
            return "broken"
        return "ok"
    if v.startswith("invalid panic/") or v.startswith("invalid err/"):
        return "violation"
    if v.startswith("invalid shape/") or v.startswith("invalid changed/"):
        return "violation"          # the first clause of the property (only nops, nothing else changes) fails on f itself
    if v.startswith("invalid ") and "; diverge " in v:
        return "violation"
    if v.startswith("invalid ") and "x=diff" in c.impl:
        return "violation"
    return "broken"


def signature(c):
    """C14/<why>: the category the checker gives (no data values), see lean/Drivers/C14.lean"""
    v = c.model
    if v.startswith("invalid "):
        why = v[len("invalid "):].split(" ; ")[0].strip()
        if c.cls.endswith("/alias-width"):
            return f"{ID}/alias-width/{why}"      # the hand-written case with one name at two widths
        return f"{ID}/{why}"
    if v.startswith("valid") and "x=diff" in c.impl:
        return f"{ID}/executor-disagrees-with-checker"
    return f"{ID}/{c.cls}/{v.split(' ')[0]}"


def nontrivial(c):
    m = re.match(r"removed=(\d+)", c.spec or "")
    if m:
        return int(m.group(1)) >= 1
    return c.impl == "panic" or c.impl.startswith("err:")
