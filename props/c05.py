"""C05 — lifting any bytes is total and yields well-formed, deterministic IL (DESIGN §6 C05)."""
import re
ID = "C05"
HARNESS_BIN = "c05"
DRIVER = "fvd_c05"
DRIVER_TAKES_ANSWER = True
LEAN_TARGETS = ["FalconProofs.Props.C05", "fvd_c05"]
PROPS_MODULE = "FalconProofs.Props.C05"
LEVEL = "translation_validation"
RULE = ("byte strings per translator (x86, amd64, mips, mipsel, ppc, aarch64, aarch64eb) x both unsupported-instruction "
        "policies x 4 load addresses: structured sweeps (x86: every 1-byte and 0f-2-byte opcode x 8 prefix sets x random "
        "ModRM/tails; fixed-width ISAs: every major opcode x function field x random remaining bits), uniform random "
        "words/bytes, multi-instruction and truncated inputs. falcon's returned BlockTranslationResult is judged by the "
        "kernel-proved checker btrIll; distinct = distinct request; non-trivial = the translator returned IL (not an error)")
TRUSTED = [
    "the checker FalconModel/WfIL.lean is proved sound in FalconProofs/Props/C05.lean (wf => no sort error, exactly one guard enabled)",
    "correspondence: harness/src/bin/c05.rs + harness/src/lift.rs (FIL printer) + lean/Drivers/C05.lean",
    "'never panics / terminates' is OBSERVED on the sweep (catch_unwind, generator timeout), not proved: it is a statement about Rust and C code (capstone, bad64)",
]
ASSUMPTIONS = ["falcon built with overflow-checks on: arithmetic overflow in address computations shows up as a panic"]


def verdict(c):
    return c.model


def classify(c):
    v = c.model
    if v in ("wf", "rejected"):
        return "ok"
    if v.startswith("panic") or v.startswith("illformed"):
        return "violation"
    return "broken"          # unparsable / bad-request: the machinery, not falcon


def _norm(detail):
    d = re.sub(r"temp_0x[0-9A-Fa-f]+(_\d+)?", "T", detail)
    d = re.sub(r"0x[0-9a-f]+", "K", d)
    d = re.sub(r"\(s (?!T )(?![c-gs]s_base )[^ ()]+ (\d+)\)", r"(s R \1)", d)   # segment bases keep their names
    d = re.sub(r"\(s T (\d+)\)", r"(s T \1)", d)
    return d.replace(" ", "_")[:160]


def _opcode_at(c, addr):
    """prefix/opcode class of the instruction at `addr` inside the request's bytes (x86/amd64), or the major
    opcode fields of the word there (fixed-width ISAs): ties an ill-formedness signature to the instruction"""
    f = c.req.split(" ")
    try:
        arch, data, base = f[1], bytes.fromhex(f[2]), int(f[3], 16)
        off = (addr - base) % (1 << 64)
        b = data[off:]
        if arch in ("x86", "amd64"):
            i, pre = 0, []
            while i < len(b) and (b[i] in (0x66, 0x67, 0xf2, 0xf3, 0x2e, 0x36, 0x3e, 0x26, 0x64, 0x65, 0xf0)
                                  or (arch == "amd64" and 0x40 <= b[i] <= 0x4f)):
                if b[i] in (0x66, 0x67, 0xf2, 0xf3):
                    pre.append("%02x" % b[i])
                elif 0x48 <= b[i] <= 0x4f:
                    pre.append("rexw")
                i += 1
            if i < len(b) and b[i] == 0x0f and i + 1 < len(b):
                op = "0f%02x" % b[i + 1]
                modrm = b[i + 2] if i + 2 < len(b) else None
            elif i < len(b):
                op = "%02x" % b[i]
                modrm = b[i + 1] if i + 1 < len(b) else None
            else:
                return "none"
            grp = ""
            if op in ("ff", "fe", "f6", "f7", "80", "81", "83", "c0", "c1", "d0", "d1", "d2", "d3", "8f", "c6", "c7") and modrm is not None:
                grp = "/%d" % ((modrm >> 3) & 7)
            return "+".join(sorted(set(pre))) + ":" + op + grp
        w = int.from_bytes(b[:4], "big" if arch in ("mips", "ppc") else "little")
        return "op%02x" % (w >> 26)
    except Exception:
        return "?"


def signature(c):
    """panic: where and why it panicked; ill-formed: which rule, the instruction (prefixes + opcode) it was lifted
    from and the shape of the offending operation or guard set (registers, temporaries and constants abstracted)
    — not the operand bytes, so every encoding with the same defect maps to one finding while a different defect
    gets a different signature"""
    v = c.model
    arch = c.cls.split("/")[1] if "/" in c.cls else "?"
    if v.startswith("panic"):
        return f"C05/{arch}/{v.replace(' ', '_')}"
    if v.startswith("illformed"):
        body = v[len("illformed "):]
        m = re.search(r"@0x([0-9a-f]+)", body)
        ins = _opcode_at(c, int(m.group(1), 16)) if m else "block"
        body = re.sub(r"@0x[0-9a-f]+", "", body)
        why, _, detail = body.partition(" ")
        return f"C05/{arch}/illformed/{why}/{ins}/{_norm(detail)}"
    return f"C05/{c.cls}/{v.split(' ')[0]}"


def nontrivial(c):
    return c.impl.startswith("(btr") and "(fn " in c.impl
