"""C18 — program locations navigate and round-trip consistently (DESIGN §6 C18)."""
ID = "C18"
HARNESS_BIN = "c18"
DRIVER = "fvd_c18"
LEAN_TARGETS = ["FalconProofs.Props.C18", "fvd_c18"]
PROPS_MODULE = "FalconProofs.Props.C18"
LEVEL = "proof"
RULE = ("random functions built through falcon's API (1-8 blocks, empty blocks, self-loops, unreachable blocks, "
        "entry inside a loop, blocks with several in/out edges, duplicate and missing instruction addresses, gaps in "
        "instruction and block indices after remove_instruction/merge) and random programs of 1-4 such functions whose "
        "address order differs from their index order; per function: forward/backward of every location (nav), "
        "locations() (locs), closure of forward from from_function (reach), owned round trip (rtf); per program: "
        "ProgramLocation round trip on the program and a clone (rt), from_address for present addresses +-1/+4 (addr), "
        "random owned locations (apply), migrate (mig); every fifth case is ill-formed (duplicate instruction "
        "indices pushed through instructions_mut(); model only). distinct = distinct request line; non-trivial = some "
        "function of the request has an empty block or a block with >= 2 in- and >= 2 out-edges")
TRUSTED = [
    "specification: succB / specLocs / block-level reachability (FalconModel/Location.lean, Drivers/C18.lean)",
    "correspondence: harness/src/bin/c18.rs + lean/Drivers/C18.lean + check (three-way diff); FIL printer/reader",
    "modelled, not verified: BTreeMap iteration order (sorted association lists), reference identity of "
    "RefFunctionLocation (Rust compares the referenced values, and so does the model)",
]
ASSUMPTIONS = [
    "functions are well-formed in the sense of WFf (unique block / instruction / edge indices, edges between existing "
    "blocks): what falcon's constructors maintain; ill-formed functions are compared against the model only",
    "programs are built by Program::add_function (function index = map key)",
]


def _kind(c):
    return c.req.split(" ", 1)[0]


def _norm_nav(t):
    # order inside the successor / predecessor lists, and the order in which locations() lists the locations the
    # entries are printed for, are not part of the property
    out = []
    for entry in t.split(" ; "):
        toks = []
        for tok in entry.split(" "):
            if "=[" in tok:
                h, body = tok.split("=[", 1)
                tok = h + "=[" + ",".join(sorted(body.rstrip("]").split(","))) + "]"
            toks.append(tok)
        out.append(" ".join(toks))
    return sorted(out[1:]) + out[:1]


def _canon(k, t):
    """`locs`, `nav`, `rtf`, `rt`, `mig` print one entry per location in the order of Function::locations(); the
    property fixes the (multi)set of locations, not the order in which they are enumerated"""
    if t in ("-", "?", "bad-request", "panic") or t.startswith("err:"):
        return t
    if k == "locs":
        return sorted(t.split())
    if k == "nav":
        return _norm_nav(t)
    if k in ("rtf", "rt", "mig"):
        return sorted(t.split(" ; "))
    return t


def classify(c):
    spec_silent = c.spec in ("-", "?")
    k = _kind(c)
    if not spec_silent:
        if k == "addr":
            # the property: some instruction with that address is found whenever one exists
            reqaddrs = c.req.rsplit(")", 1)[1].split()
            impl = c.impl.split(" ; ")
            spec = c.spec.split(" ; ")
            if len(impl) != len(spec) or len(impl) != len(reqaddrs):
                return "violation"
            for a, i, s in zip(reqaddrs, impl, spec):
                if (i == "none") != (s == "none"):
                    return "violation"
                if i != "none" and i.rsplit(":", 1)[-1] != a:
                    return "violation"
        elif _canon(k, c.impl) != _canon(k, c.spec):
            return "violation"
    if _canon(k, c.impl) != _canon(k, c.model):
        return "broken"
    return "ok"
