//! Random IL: expressions over scalars, operations, CFG shapes, functions and programs, built through
//! falcon's public API.  Shared by the checks that quantify over "all IL functions".
use crate::rng::Rng;
use falcon::il::{self, ControlFlowGraph, Expression as E, Function, Intrinsic, Operation, Program, Scalar};

#[derive(Clone)]
pub struct GenCfg {
    /// scalar names with their widths (one width per name)
    pub names: Vec<(String, usize)>,
    pub max_blocks: usize,
    pub max_instrs: usize,
    pub expr_depth: u32,
    pub mem: bool,
    pub branch: bool,
    pub intrinsic: bool,
    /// guards form a partition (`true`) or are arbitrary 1-bit expressions (`false`)
    pub partition_guards: bool,
    pub self_loops: bool,
    /// blocks not reachable from the entry may exist
    pub unreachable: bool,
    pub empty_blocks: bool,
    /// address width for loads/stores/branches
    pub addr_bits: usize,
    /// give instructions addresses
    pub addresses: bool,
    /// the entry block may have predecessors
    pub entry_in_loop: bool,
    /// only use these operators in generated expressions (empty = all total ones)
    pub allow_div: bool,
    /// remove an instruction from some blocks with `Block::remove_instruction`, so that instruction indices
    /// are no longer contiguous (index != position) — what every editing client of the IL can produce
    pub index_gaps: bool,
    /// before some blocks are created, try to wire an edge to their (not yet existing) index: the insertion is
    /// rejected and must leave nothing behind — what a client that wires edges before blocks sees
    pub rejected_edges: bool,
}

impl Default for GenCfg {
    fn default() -> GenCfg {
        GenCfg {
            names: vec![
                ("a".into(), 32),
                ("b".into(), 32),
                ("c".into(), 32),
                ("d".into(), 32),
                ("f".into(), 1),
                ("g".into(), 1),
                ("w".into(), 64),
                ("h".into(), 8),
            ],
            max_blocks: 8,
            max_instrs: 5,
            expr_depth: 2,
            mem: true,
            branch: false,
            intrinsic: true,
            partition_guards: true,
            self_loops: true,
            unreachable: true,
            empty_blocks: true,
            addr_bits: 32,
            addresses: true,
            entry_in_loop: true,
            allow_div: true,
            index_gaps: true,
            rejected_edges: true,
        }
    }
}

impl GenCfg {
    pub fn names_of(&self, bits: usize) -> Vec<Scalar> {
        self.names.iter().filter(|(_, b)| *b == bits).map(|(n, b)| il::scalar(n.clone(), *b)).collect()
    }
    pub fn any_scalar(&self, rng: &mut Rng) -> Scalar {
        let (n, b) = rng.pick(&self.names).clone();
        il::scalar(n, b)
    }
}

pub fn rand_const(rng: &mut Rng, bits: usize) -> il::Constant {
    let v = match rng.below(6) {
        0 => 0,
        1 => 1,
        2 => u64::MAX,
        3 => 1u64 << ((bits.min(64)) - 1),
        _ => rng.next(),
    };
    let small = if rng.chance(1, 3) { v & 0xff } else { v };
    il::const_(small, bits)
}

/// a well-sorted expression of the given width over the configured scalars
pub fn gen_expr(rng: &mut Rng, g: &GenCfg, bits: usize, depth: u32) -> E {
    let leaf = |rng: &mut Rng| -> E {
        let ns = g.names_of(bits);
        if !ns.is_empty() && rng.chance(2, 3) {
            E::Scalar(rng.pick(&ns).clone())
        } else {
            E::Constant(rand_const(rng, bits))
        }
    };
    if depth == 0 || rng.chance(1, 4) {
        return leaf(rng);
    }
    let k = rng.below(100);
    if bits == 1 && k < 40 {
        let w = rng.pick(&g.names).1;
        let l = gen_expr(rng, g, w, depth - 1);
        let r = gen_expr(rng, g, w, depth - 1);
        return match rng.below(4) {
            0 => E::cmpeq(l, r),
            1 => E::cmpneq(l, r),
            2 => E::cmplts(l, r),
            _ => E::cmpltu(l, r),
        }
        .unwrap();
    }
    if k < 65 {
        let l = gen_expr(rng, g, bits, depth - 1);
        let r = gen_expr(rng, g, bits, depth - 1);
        let nops = if g.allow_div { 13 } else { 9 };
        return match rng.below(nops) {
            0 => E::add(l, r),
            1 => E::sub(l, r),
            2 => E::mul(l, r),
            3 => E::and(l, r),
            4 => E::or(l, r),
            5 => E::xor(l, r),
            6 => E::shl(l, r),
            7 => E::shr(l, r),
            8 => E::ashr(l, r),
            9 => E::divu(l, r),
            10 => E::modu(l, r),
            11 => E::divs(l, r),
            _ => E::mods(l, r),
        }
        .unwrap();
    }
    if k < 78 {
        // extension from a narrower configured width
        let narrower: Vec<usize> = g.names.iter().map(|x| x.1).filter(|b| *b < bits).collect();
        if !narrower.is_empty() {
            let w = *rng.pick(&narrower);
            let e = gen_expr(rng, g, w, depth - 1);
            return if rng.chance(1, 2) { E::zext(bits, e) } else { E::sext(bits, e) }.unwrap();
        }
    }
    if k < 88 {
        let wider: Vec<usize> = g.names.iter().map(|x| x.1).filter(|b| *b > bits).collect();
        if !wider.is_empty() {
            let w = *rng.pick(&wider);
            return E::trun(bits, gen_expr(rng, g, w, depth - 1)).unwrap();
        }
    }
    if k < 96 {
        let c = gen_expr(rng, g, 1, depth - 1);
        let t = gen_expr(rng, g, bits, depth - 1);
        let e = gen_expr(rng, g, bits, depth - 1);
        return E::ite(c, t, e).unwrap();
    }
    leaf(rng)
}

pub fn gen_op(rng: &mut Rng, g: &GenCfg) -> Operation {
    let k = rng.below(100);
    let byte_names: Vec<(String, usize)> = g.names.iter().filter(|(_, b)| b % 8 == 0).cloned().collect();
    if g.mem && k < 15 && !byte_names.is_empty() {
        let (n, b) = rng.pick(&byte_names).clone();
        return Operation::load(il::scalar(n, b), gen_expr(rng, g, g.addr_bits, 1));
    }
    if g.mem && k < 30 && !byte_names.is_empty() {
        let b = rng.pick(&byte_names).1;
        return Operation::store(gen_expr(rng, g, g.addr_bits, 1), gen_expr(rng, g, b, g.expr_depth));
    }
    if g.intrinsic && k < 36 {
        let some_exprs = |rng: &mut Rng| -> Option<Vec<E>> {
            if rng.chance(1, 3) {
                None
            } else {
                let n = rng.below(3);
                Some((0..n).map(|_| E::Scalar(g.any_scalar(rng))).collect())
            }
        };
        let w = some_exprs(rng);
        let r = some_exprs(rng);
        return Operation::intrinsic(Intrinsic::new("intr", "intr", Vec::new(), w, r, vec![0x0f, 0x05]));
    }
    if g.branch && k < 40 {
        return Operation::branch(gen_expr(rng, g, g.addr_bits, 1));
    }
    if k < 44 {
        return Operation::nop();
    }
    let dst = g.any_scalar(rng);
    let src = if rng.chance(1, 4) {
        // self update  x := x op c
        E::add(E::Scalar(dst.clone()), E::Constant(rand_const(rng, dst.bits()))).unwrap()
    } else {
        gen_expr(rng, g, dst.bits(), g.expr_depth)
    };
    Operation::assign(dst, src)
}

/// guards for `k` out-edges that are mutually exclusive and exhaustive in every state
pub fn partition_guards(rng: &mut Rng, g: &GenCfg, k: usize) -> Vec<Option<E>> {
    let one = || il::expr_const(1, 1);
    let zero = || il::expr_const(0, 1);
    match k {
        0 => vec![],
        1 => vec![None],
        2 => {
            let c = gen_expr(rng, g, 1, 1);
            match rng.below(3) {
                0 => vec![Some(c.clone()), Some(E::cmpeq(c, zero()).unwrap())],
                1 => vec![Some(E::cmpeq(c.clone(), one()).unwrap()), Some(E::cmpneq(c, one()).unwrap())],
                _ => vec![Some(E::cmpeq(c.clone(), zero()).unwrap()), Some(c)],
            }
        }
        _ => {
            // ranges on a scalar: x <u c1 | c1 <=u x <u c2 | ... | c_{k-1} <=u x
            let ns: Vec<Scalar> = g.names.iter().filter(|(_, b)| *b >= 8).map(|(n, b)| il::scalar(n.clone(), *b)).collect();
            let x = rng.pick(&ns).clone();
            let mut cuts: Vec<u64> = (0..k - 1).map(|_| 1 + rng.below(250)).collect();
            cuts.sort();
            cuts.dedup();
            while cuts.len() < k - 1 {
                let n = cuts.last().unwrap() + 1;
                cuts.push(n);
            }
            let lt = |c: u64| E::cmpltu(E::Scalar(x.clone()), il::expr_const(c, x.bits())).unwrap();
            let ge = |c: u64| E::cmpeq(lt(c), zero()).unwrap();
            let mut v = vec![Some(lt(cuts[0]))];
            for i in 1..k - 1 {
                v.push(Some(E::and(ge(cuts[i - 1]), lt(cuts[i])).unwrap()));
            }
            v.push(Some(ge(cuts[k - 2])));
            v
        }
    }
}

pub fn gen_cfg(rng: &mut Rng, g: &GenCfg) -> ControlFlowGraph {
    let n = rng.range(1, g.max_blocks as u64) as usize;
    let mut cfg = ControlFlowGraph::new();
    let mut addr: u64 = 0x1000;
    for _ in 0..n {
        let empty = g.empty_blocks && rng.chance(1, 6);
        let k = if empty { 0 } else { rng.range(1, g.max_instrs as u64) };
        let mut ops = Vec::new();
        for _ in 0..k {
            ops.push(gen_op(rng, g));
        }
        let next = cfg.blocks().len();
        if g.rejected_edges && next >= 1 && rng.chance(1, 8) {
            // `next` is the index the block created below will get (indices are handed out in order)
            let head = rng.below(next as u64) as usize;
            let _ = if rng.chance(1, 2) {
                cfg.unconditional_edge(head, next)
            } else {
                cfg.conditional_edge(head, next, il::expr_const(1, 1))
            };
        }
        let block = cfg.new_block().unwrap();
        debug_assert!(block.index() == next);
        for op in ops {
            match op {
                Operation::Assign { dst, src } => block.assign(dst, src),
                Operation::Store { index, src } => block.store(index, src),
                Operation::Load { dst, index } => block.load(dst, index),
                Operation::Branch { target } => block.branch(target),
                Operation::Intrinsic { intrinsic } => block.intrinsic(intrinsic),
                Operation::Nop { .. } => block.nop(),
            }
        }
        if g.index_gaps && k >= 2 && rng.chance(1, 5) {
            // drop a non-final instruction: the remaining indices have a gap
            let victim = rng.below(k - 1) as usize;
            block.remove_instruction(victim).unwrap();
        }
        if g.addresses {
            for ins in block.instructions_mut() {
                ins.set_address(Some(addr));
                if rng.chance(4, 5) {
                    addr += 4; // otherwise the next IL instruction shares the native address
                }
            }
        }
    }
    // shape: a spine 0 -> 1 -> ... keeps most blocks reachable, plus random extra edges
    let entry = 0usize;
    for h in 0..n {
        let deg = match rng.below(10) {
            0 => 0,
            1..=4 => 1,
            5..=8 => 2,
            _ => 3,
        };
        let mut tails: Vec<usize> = Vec::new();
        if h + 1 < n && (!g.unreachable || rng.chance(9, 10)) && deg > 0 {
            tails.push(h + 1);
        }
        let mut tries = 0;
        while tails.len() < deg && tries < 10 {
            tries += 1;
            let t = rng.below(n as u64) as usize;
            if tails.contains(&t) {
                continue;
            }
            if t == h && !g.self_loops {
                continue;
            }
            if t == entry && !g.entry_in_loop {
                continue;
            }
            tails.push(t);
        }
        let guards = if g.partition_guards {
            partition_guards(rng, g, tails.len())
        } else {
            tails
                .iter()
                .map(|_| if rng.chance(1, 4) { None } else { Some(gen_expr(rng, g, 1, 1)) })
                .collect()
        };
        for (t, c) in tails.iter().zip(guards) {
            match c {
                // an error here (only possible if a rejected insertion above left something behind) is for the
                // checks to see in the function that results, not for the generator to die of
                None => { let _ = cfg.unconditional_edge(h, *t); }
                Some(c) => { let _ = cfg.conditional_edge(h, *t, c); }
            }
        }
    }
    cfg.set_entry(entry).unwrap();
    let exits: Vec<usize> =
        (0..n).filter(|i| cfg.edges_out(*i).map(|e| e.is_empty()).unwrap_or(false)).collect();
    let exit = if exits.is_empty() { n - 1 } else { *rng.pick(&exits) };
    cfg.set_exit(exit).unwrap();
    cfg
}

pub fn gen_function(rng: &mut Rng, g: &GenCfg) -> Function {
    let cfg = gen_cfg(rng, g);
    let addr = cfg.block(0).ok().and_then(|b| b.address()).unwrap_or(0x1000);
    Function::new(addr, cfg)
}

pub fn gen_program(rng: &mut Rng, g: &GenCfg, max_functions: usize) -> Program {
    let mut p = Program::new();
    let n = rng.range(1, max_functions as u64);
    for i in 0..n {
        let mut f = gen_function(rng, g);
        // shift addresses so that functions do not overlap (most of the time)
        if g.addresses && rng.chance(9, 10) {
            let base = 0x1000 * (i + 1) as u64 * 4;
            let mut cfg = f.control_flow_graph().clone();
            for b in cfg.blocks_mut() {
                for ins in b.instructions_mut() {
                    let a = ins.address().map(|a| a - 0x1000 + base);
                    ins.set_address(a);
                }
            }
            f = Function::new(base, cfg);
        }
        p.add_function(f);
    }
    p
}
