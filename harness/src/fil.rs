//! FIL — the text form of IL objects (DESIGN §2.2).  Printer and reader; the Lean side has the same
//! grammar in FalconModel/FilExpr.lean.  The reader builds through the raw enum variants so that an
//! ill-sorted tree in a request stays ill-sorted.
use crate::sx::Sx;
use falcon::il::{self, Expression as E};

pub fn scalar_str(s: &il::Scalar) -> String {
    match s.ssa() {
        None => format!("(s {} {})", s.name(), s.bits()),
        Some(v) => format!("(s {} {} {})", s.name(), s.bits(), v),
    }
}

pub fn expr_str(e: &E) -> String {
    let b = |n: &str, l: &E, r: &E| format!("({} {} {})", n, expr_str(l), expr_str(r));
    match e {
        E::Scalar(s) => scalar_str(s),
        E::Constant(c) => format!("(c 0x{:x} {})", c.value(), c.bits()),
        E::Add(l, r) => b("add", l, r),
        E::Sub(l, r) => b("sub", l, r),
        E::Mul(l, r) => b("mul", l, r),
        E::Divu(l, r) => b("divu", l, r),
        E::Modu(l, r) => b("modu", l, r),
        E::Divs(l, r) => b("divs", l, r),
        E::Mods(l, r) => b("mods", l, r),
        E::And(l, r) => b("and", l, r),
        E::Or(l, r) => b("or", l, r),
        E::Xor(l, r) => b("xor", l, r),
        E::Shl(l, r) => b("shl", l, r),
        E::Shr(l, r) => b("shr", l, r),
        E::AShr(l, r) => b("ashr", l, r),
        E::Cmpeq(l, r) => b("cmpeq", l, r),
        E::Cmpneq(l, r) => b("cmpneq", l, r),
        E::Cmplts(l, r) => b("cmplts", l, r),
        E::Cmpltu(l, r) => b("cmpltu", l, r),
        E::Zext(n, x) => format!("(zext {} {})", n, expr_str(x)),
        E::Sext(n, x) => format!("(sext {} {})", n, expr_str(x)),
        E::Trun(n, x) => format!("(trun {} {})", n, expr_str(x)),
        E::Ite(c, t, x) => format!("(ite {} {} {})", expr_str(c), expr_str(t), expr_str(x)),
    }
}

pub fn read_scalar(xs: &[Sx]) -> Option<il::Scalar> {
    match xs {
        [n, b] => Some(il::Scalar::new(n.atom()?, b.usize()?)),
        [n, b, v] => {
            let mut s = il::Scalar::new(n.atom()?, b.usize()?);
            s.set_ssa(Some(v.usize()?));
            Some(s)
        }
        _ => None,
    }
}

pub const BIN_OPS: [&str; 17] = [
    "add", "sub", "mul", "divu", "modu", "divs", "mods", "and", "or", "xor", "shl", "shr", "ashr", "cmpeq",
    "cmpneq", "cmplts", "cmpltu",
];

/// raw (unchecked) binary node
pub fn raw_bin(op: &str, l: E, r: E) -> Option<E> {
    let (l, r) = (Box::new(l), Box::new(r));
    Some(match op {
        "add" => E::Add(l, r),
        "sub" => E::Sub(l, r),
        "mul" => E::Mul(l, r),
        "divu" => E::Divu(l, r),
        "modu" => E::Modu(l, r),
        "divs" => E::Divs(l, r),
        "mods" => E::Mods(l, r),
        "and" => E::And(l, r),
        "or" => E::Or(l, r),
        "xor" => E::Xor(l, r),
        "shl" => E::Shl(l, r),
        "shr" => E::Shr(l, r),
        "ashr" => E::AShr(l, r),
        "cmpeq" => E::Cmpeq(l, r),
        "cmpneq" => E::Cmpneq(l, r),
        "cmplts" => E::Cmplts(l, r),
        "cmpltu" => E::Cmpltu(l, r),
        _ => return None,
    })
}

/// checked binary node (falcon's smart constructor)
pub fn mk_bin(op: &str, l: E, r: E) -> Option<Result<E, falcon::Error>> {
    Some(match op {
        "add" => E::add(l, r),
        "sub" => E::sub(l, r),
        "mul" => E::mul(l, r),
        "divu" => E::divu(l, r),
        "modu" => E::modu(l, r),
        "divs" => E::divs(l, r),
        "mods" => E::mods(l, r),
        "and" => E::and(l, r),
        "or" => E::or(l, r),
        "xor" => E::xor(l, r),
        "shl" => E::shl(l, r),
        "shr" => E::shr(l, r),
        "ashr" => E::ashr(l, r),
        "cmpeq" => E::cmpeq(l, r),
        "cmpneq" => E::cmpneq(l, r),
        "cmplts" => E::cmplts(l, r),
        "cmpltu" => E::cmpltu(l, r),
        _ => return None,
    })
}

pub fn read_expr(x: &Sx) -> Option<E> {
    let xs = x.list()?;
    let head = xs.first()?.atom()?;
    match (head, &xs[1..]) {
        ("c", [v, b]) => Some(E::Constant(il::Constant::new_big(v.nat()?, b.usize()?))),
        ("s", rest) => Some(E::Scalar(read_scalar(rest)?)),
        ("ite", [c, t, e]) => Some(E::Ite(
            Box::new(read_expr(c)?),
            Box::new(read_expr(t)?),
            Box::new(read_expr(e)?),
        )),
        ("zext", [n, e]) => Some(E::Zext(n.usize()?, Box::new(read_expr(e)?))),
        ("sext", [n, e]) => Some(E::Sext(n.usize()?, Box::new(read_expr(e)?))),
        ("trun", [n, e]) => Some(E::Trun(n.usize()?, Box::new(read_expr(e)?))),
        (op, [l, r]) => raw_bin(op, read_expr(l)?, read_expr(r)?),
        _ => None,
    }
}

pub fn res_expr(r: Option<Result<E, falcon::Error>>) -> String {
    match r {
        None => "panic".to_string(),
        Some(Ok(e)) => format!("ok {}", expr_str(&e)),
        Some(Err(e)) => crate::canon::err_str(&e).to_string(),
    }
}
