//! FIL — the text form of IL objects (DESIGN §2.2).  Printer and reader; the Lean side has the same
//! grammar in FalconModel/FilExpr.lean.  The reader builds through the raw enum variants so that an
//! ill-sorted tree in a request stays ill-sorted.
use crate::sx::Sx;
use falcon::il::{self, Expression as E};

pub fn scalar_str(s: &il::Scalar) -> String {
    match s.ssa() {
        None => format!("(s {} {})", s.name(), s.bits()),
        Some(v) => format!("(s {} {} {})", s.name(), s.bits(), v),
    }
}

pub fn expr_str(e: &E) -> String {
    let b = |n: &str, l: &E, r: &E| format!("({} {} {})", n, expr_str(l), expr_str(r));
    match e {
        E::Scalar(s) => scalar_str(s),
        E::Constant(c) => format!("(c 0x{:x} {})", c.value(), c.bits()),
        E::Add(l, r) => b("add", l, r),
        E::Sub(l, r) => b("sub", l, r),
        E::Mul(l, r) => b("mul", l, r),
        E::Divu(l, r) => b("divu", l, r),
        E::Modu(l, r) => b("modu", l, r),
        E::Divs(l, r) => b("divs", l, r),
        E::Mods(l, r) => b("mods", l, r),
        E::And(l, r) => b("and", l, r),
        E::Or(l, r) => b("or", l, r),
        E::Xor(l, r) => b("xor", l, r),
        E::Shl(l, r) => b("shl", l, r),
        E::Shr(l, r) => b("shr", l, r),
        E::AShr(l, r) => b("ashr", l, r),
        E::Cmpeq(l, r) => b("cmpeq", l, r),
        E::Cmpneq(l, r) => b("cmpneq", l, r),
        E::Cmplts(l, r) => b("cmplts", l, r),
        E::Cmpltu(l, r) => b("cmpltu", l, r),
        E::Zext(n, x) => format!("(zext {} {})", n, expr_str(x)),
        E::Sext(n, x) => format!("(sext {} {})", n, expr_str(x)),
        E::Trun(n, x) => format!("(trun {} {})", n, expr_str(x)),
        E::Ite(c, t, x) => format!("(ite {} {} {})", expr_str(c), expr_str(t), expr_str(x)),
    }
}

pub fn read_scalar(xs: &[Sx]) -> Option<il::Scalar> {
    match xs {
        [n, b] => Some(il::Scalar::new(n.atom()?, b.usize()?)),
        [n, b, v] => {
            let mut s = il::Scalar::new(n.atom()?, b.usize()?);
            s.set_ssa(Some(v.usize()?));
            Some(s)
        }
        _ => None,
    }
}

pub const BIN_OPS: [&str; 17] = [
    "add", "sub", "mul", "divu", "modu", "divs", "mods", "and", "or", "xor", "shl", "shr", "ashr", "cmpeq",
    "cmpneq", "cmplts", "cmpltu",
];

/// raw (unchecked) binary node
pub fn raw_bin(op: &str, l: E, r: E) -> Option<E> {
    let (l, r) = (Box::new(l), Box::new(r));
    Some(match op {
        "add" => E::Add(l, r),
        "sub" => E::Sub(l, r),
        "mul" => E::Mul(l, r),
        "divu" => E::Divu(l, r),
        "modu" => E::Modu(l, r),
        "divs" => E::Divs(l, r),
        "mods" => E::Mods(l, r),
        "and" => E::And(l, r),
        "or" => E::Or(l, r),
        "xor" => E::Xor(l, r),
        "shl" => E::Shl(l, r),
        "shr" => E::Shr(l, r),
        "ashr" => E::AShr(l, r),
        "cmpeq" => E::Cmpeq(l, r),
        "cmpneq" => E::Cmpneq(l, r),
        "cmplts" => E::Cmplts(l, r),
        "cmpltu" => E::Cmpltu(l, r),
        _ => return None,
    })
}

/// checked binary node (falcon's smart constructor)
pub fn mk_bin(op: &str, l: E, r: E) -> Option<Result<E, falcon::Error>> {
    Some(match op {
        "add" => E::add(l, r),
        "sub" => E::sub(l, r),
        "mul" => E::mul(l, r),
        "divu" => E::divu(l, r),
        "modu" => E::modu(l, r),
        "divs" => E::divs(l, r),
        "mods" => E::mods(l, r),
        "and" => E::and(l, r),
        "or" => E::or(l, r),
        "xor" => E::xor(l, r),
        "shl" => E::shl(l, r),
        "shr" => E::shr(l, r),
        "ashr" => E::ashr(l, r),
        "cmpeq" => E::cmpeq(l, r),
        "cmpneq" => E::cmpneq(l, r),
        "cmplts" => E::cmplts(l, r),
        "cmpltu" => E::cmpltu(l, r),
        _ => return None,
    })
}

pub fn read_expr(x: &Sx) -> Option<E> {
    let xs = x.list()?;
    let head = xs.first()?.atom()?;
    match (head, &xs[1..]) {
        ("c", [v, b]) => Some(E::Constant(il::Constant::new_big(v.nat()?, b.usize()?))),
        ("s", rest) => Some(E::Scalar(read_scalar(rest)?)),
        ("ite", [c, t, e]) => Some(E::Ite(
            Box::new(read_expr(c)?),
            Box::new(read_expr(t)?),
            Box::new(read_expr(e)?),
        )),
        ("zext", [n, e]) => Some(E::Zext(n.usize()?, Box::new(read_expr(e)?))),
        ("sext", [n, e]) => Some(E::Sext(n.usize()?, Box::new(read_expr(e)?))),
        ("trun", [n, e]) => Some(E::Trun(n.usize()?, Box::new(read_expr(e)?))),
        (op, [l, r]) => raw_bin(op, read_expr(l)?, read_expr(r)?),
        _ => None,
    }
}

pub fn res_expr(r: Option<Result<E, falcon::Error>>) -> String {
    match r {
        None => "panic".to_string(),
        Some(Ok(e)) => format!("ok {}", expr_str(&e)),
        Some(Err(e)) => crate::canon::err_str(&e).to_string(),
    }
}

// ------------------------------------------------------------------------------------------------
// operations, blocks, functions, programs (grammar: lean/FalconModel/FilIL.lean)

use falcon::il::{Block, ControlFlowGraph, Function, Instruction, Intrinsic, Operation, PhiNode, Program};

fn clean(s: &str) -> String {
    let t: String = s.chars().map(|c| if c.is_whitespace() || c == '(' || c == ')' { '_' } else { c }).collect();
    if t.is_empty() { "_".to_string() } else { t }
}

fn opt_exprs_str(x: Option<&[E]>) -> String {
    match x {
        None => "-".to_string(),
        Some(es) => format!("({})", es.iter().map(expr_str).collect::<Vec<_>>().join(" ")),
    }
}

pub fn op_str(op: &Operation) -> String {
    match op {
        Operation::Assign { dst, src } => format!("(assign {} {})", scalar_str(dst), expr_str(src)),
        Operation::Store { index, src } => format!("(store {} {})", expr_str(index), expr_str(src)),
        Operation::Load { dst, index } => format!("(load {} {})", scalar_str(dst), expr_str(index)),
        Operation::Branch { target } => format!("(branch {})", expr_str(target)),
        Operation::Intrinsic { intrinsic } => format!(
            "(intrinsic {} {} {})",
            clean(intrinsic.mnemonic()),
            opt_exprs_str(intrinsic.written_expressions()),
            opt_exprs_str(intrinsic.read_expressions())
        ),
        Operation::Nop { .. } => "(nop)".to_string(),
    }
}

pub fn ins_str(i: &Instruction) -> String {
    let a = match i.address() {
        None => "-".to_string(),
        Some(a) => format!("0x{:x}", a),
    };
    format!("(ins {} {} {})", i.index(), a, op_str(i.operation()))
}

/// `preds`: the block indices to look up in the phi node (its map is not iterable from outside)
pub fn phi_str(p: &PhiNode, preds: &[usize]) -> String {
    let mut parts = vec!["(phi".to_string(), scalar_str(p.out())];
    parts.push(match p.entry_scalar() {
        None => "-".to_string(),
        Some(s) => scalar_str(s),
    });
    for b in preds {
        if let Some(s) = p.incoming_scalar(*b) {
            parts.push(format!("({} {})", b, scalar_str(s)));
        }
    }
    parts.join(" ") + ")"
}

/// `next_instr`: Block::next_instruction_index is private; callers that track it pass it, others pass
/// `None` and get `max index + 1` (what the API produces when nothing was removed).
pub fn blk_str(b: &Block, all_blocks: &[usize], next_instr: Option<usize>) -> String {
    let ni = next_instr.unwrap_or_else(|| b.instructions().iter().map(|i| i.index() + 1).max().unwrap_or(0));
    let mut parts = vec!["(blk".to_string(), b.index().to_string(), ni.to_string()];
    for p in b.phi_nodes() {
        parts.push(phi_str(p, all_blocks));
    }
    for i in b.instructions() {
        parts.push(ins_str(i));
    }
    parts.join(" ") + ")"
}

pub fn edge_str(e: &il::Edge) -> String {
    let c = match e.condition() {
        None => "-".to_string(),
        Some(c) => expr_str(c),
    };
    format!("(edge {} {} {})", e.head(), e.tail(), c)
}

/// private counters (`next_index`, `next_temp_index`) are printed as `max block index + 1` and 0
pub fn function_str(f: &Function) -> String {
    let cfg = f.control_flow_graph();
    let idxs: Vec<usize> = cfg.blocks().iter().map(|b| b.index()).collect();
    let o = |x: Option<usize>| x.map(|v| v.to_string()).unwrap_or_else(|| "-".to_string());
    let mut parts = vec![
        "(fn".to_string(),
        format!("0x{:x}", f.address()),
        o(f.index()),
        o(cfg.entry()),
        o(cfg.exit()),
        idxs.iter().max().map(|m| m + 1).unwrap_or(0).to_string(),
        "0".to_string(),
    ];
    for b in cfg.blocks() {
        parts.push(blk_str(b, &idxs, None));
    }
    for e in cfg.edges() {
        parts.push(edge_str(e));
    }
    parts.join(" ") + ")"
}

pub fn program_str(p: &Program) -> String {
    let mut parts = vec!["(prog".to_string()];
    for f in p.functions() {
        parts.push(function_str(f));
    }
    parts.join(" ") + ")"
}

fn read_scalar_sx(x: &Sx) -> Option<il::Scalar> {
    let l = x.list()?;
    if l.first()?.atom()? != "s" {
        return None;
    }
    read_scalar(&l[1..])
}

fn read_opt_exprs(x: &Sx) -> Option<Option<Vec<E>>> {
    match x {
        Sx::Atom(a) if a == "-" => Some(None),
        Sx::List(v) => Some(Some(v.iter().map(read_expr).collect::<Option<Vec<_>>>()?)),
        _ => None,
    }
}

pub fn read_op(x: &Sx) -> Option<Operation> {
    let l = x.list()?;
    match (l.first()?.atom()?, &l[1..]) {
        ("assign", [d, e]) => Some(Operation::assign(read_scalar_sx(d)?, read_expr(e)?)),
        ("store", [i, s]) => Some(Operation::store(read_expr(i)?, read_expr(s)?)),
        ("load", [d, i]) => Some(Operation::load(read_scalar_sx(d)?, read_expr(i)?)),
        ("branch", [t]) => Some(Operation::branch(read_expr(t)?)),
        ("intrinsic", [m, w, r]) => Some(Operation::intrinsic(Intrinsic::new(
            m.atom()?,
            m.atom()?,
            Vec::new(),
            read_opt_exprs(w)?,
            read_opt_exprs(r)?,
            Vec::new(),
        ))),
        ("nop", []) => Some(Operation::nop()),
        _ => None,
    }
}

fn opt_u(x: &Sx) -> Option<Option<u64>> {
    match x.atom()? {
        "-" => Some(None),
        _ => Some(Some(x.u64()?)),
    }
}

/// Rebuilds a function from FIL through falcon's public API only:
/// blocks `0..nextIndex` are created with `new_block`; indices absent from the text are merged away
/// (chained behind the first present block and removed by `merge()`, which is how such gaps arise in
/// falcon itself); `next_instruction_index` is reproduced by that many `nop()` calls before the
/// instruction list is replaced; instructions are pushed raw (arbitrary indices and addresses).
pub fn read_function(x: &Sx) -> Option<Function> {
    let l = x.list()?;
    if l.first()?.atom()? != "fn" || l.len() < 7 {
        return None;
    }
    let addr = l[1].u64()?;
    let index = opt_u(&l[2])?;
    let entry = opt_u(&l[3])?;
    let exit = opt_u(&l[4])?;
    let next_index = l[5].usize()?;
    let next_temp = l[6].u64()?;
    let mut blks: Vec<&[Sx]> = Vec::new();
    let mut edges: Vec<&[Sx]> = Vec::new();
    for it in &l[7..] {
        let il_ = it.list()?;
        match il_.first()?.atom()? {
            "blk" => blks.push(il_),
            "edge" => edges.push(il_),
            _ => return None,
        }
    }
    let present: Vec<usize> = blks.iter().map(|b| b[1].usize()).collect::<Option<Vec<_>>>()?;
    let max = present.iter().cloned().max().map(|m| m + 1).unwrap_or(0).max(next_index);
    let mut cfg = ControlFlowGraph::new();
    for _ in 0..max {
        cfg.new_block().ok()?;
    }
    for _ in 0..next_temp {
        cfg.temp(1);
    }
    let missing: Vec<usize> = (0..max).filter(|i| !present.contains(i)).collect();
    if !missing.is_empty() {
        let first = *present.first()?;
        let mut prev = first;
        for m in &missing {
            cfg.unconditional_edge(prev, *m).ok()?;
            prev = *m;
        }
        cfg.merge().ok()?;
    }
    for b in &blks {
        let bi = b[1].usize()?;
        let ni = b[2].usize()?;
        let all: Vec<usize> = present.clone();
        let block = cfg.block_mut(bi).ok()?;
        for _ in 0..ni {
            block.nop();
        }
        block.instructions_mut().clear();
        for item in &b[3..] {
            let il_ = item.list()?;
            match il_.first()?.atom()? {
                "ins" => {
                    let mut ins = Instruction::new(il_[1].usize()?, read_op(&il_[3])?);
                    ins.set_address(opt_u(&il_[2])?);
                    block.instructions_mut().push(ins);
                }
                "phi" => {
                    let mut p = PhiNode::new(read_scalar_sx(&il_[1])?);
                    if il_[2].atom() != Some("-") {
                        p.set_entry_scalar(read_scalar_sx(&il_[2])?);
                    }
                    for inc in &il_[3..] {
                        let pr = inc.list()?;
                        p.add_incoming(read_scalar_sx(&pr[1])?, pr[0].usize()?);
                    }
                    block.add_phi_node(p);
                }
                _ => return None,
            }
        }
        let _ = all;
    }
    for e in &edges {
        let (h, t) = (e[1].usize()?, e[2].usize()?);
        if e[3].atom() == Some("-") {
            cfg.unconditional_edge(h, t).ok()?;
        } else {
            cfg.conditional_edge(h, t, read_expr(&e[3])?).ok()?;
        }
    }
    if let Some(en) = entry {
        cfg.set_entry(en as usize).ok()?;
    }
    if let Some(ex) = exit {
        cfg.set_exit(ex as usize).ok()?;
    }
    let mut f = Function::new(addr, cfg);
    f.set_index(index.map(|i| i as usize));
    Some(f)
}

/// functions are added in order with `add_function`, which gives them the indices 0,1,2,… whatever index the text carries
/// (a function cloned out of another program carries that program's index)
pub fn read_program(x: &Sx) -> Option<Program> {
    let l = x.list()?;
    if l.first()?.atom()? != "prog" {
        return None;
    }
    let mut p = Program::new();
    for f in &l[1..] {
        p.add_function(read_function(f)?);
    }
    Some(p)
}
