//! S-expressions: the concrete syntax of the line protocol (mirror of lean/FalconModel/Sx.lean).
#[derive(Clone, Debug, PartialEq)]
pub enum Sx {
    Atom(String),
    List(Vec<Sx>),
}

pub fn tokens(s: &str) -> Vec<String> {
    let mut out = Vec::new();
    let mut cur = String::new();
    for c in s.chars() {
        if c == '(' || c == ')' {
            if !cur.is_empty() {
                out.push(std::mem::take(&mut cur));
            }
            out.push(c.to_string());
        } else if c.is_whitespace() {
            if !cur.is_empty() {
                out.push(std::mem::take(&mut cur));
            }
        } else {
            cur.push(c);
        }
    }
    if !cur.is_empty() {
        out.push(cur);
    }
    out
}

/// all top-level S-expressions of a line
pub fn parse_all(s: &str) -> Option<Vec<Sx>> {
    let mut stack: Vec<Vec<Sx>> = vec![Vec::new()];
    for t in tokens(s) {
        if t == "(" {
            stack.push(Vec::new());
        } else if t == ")" {
            if stack.len() < 2 {
                return None;
            }
            let done = stack.pop().unwrap();
            stack.last_mut().unwrap().push(Sx::List(done));
        } else {
            stack.last_mut().unwrap().push(Sx::Atom(t));
        }
    }
    if stack.len() == 1 {
        stack.pop()
    } else {
        None
    }
}

impl Sx {
    pub fn atom(&self) -> Option<&str> {
        match self {
            Sx::Atom(s) => Some(s),
            _ => None,
        }
    }
    pub fn list(&self) -> Option<&[Sx]> {
        match self {
            Sx::List(v) => Some(v),
            _ => None,
        }
    }
    pub fn nat(&self) -> Option<num_bigint::BigUint> {
        parse_nat(self.atom()?)
    }
    pub fn usize(&self) -> Option<usize> {
        use num_traits::ToPrimitive;
        self.nat()?.to_usize()
    }
    pub fn u64(&self) -> Option<u64> {
        use num_traits::ToPrimitive;
        self.nat()?.to_u64()
    }
}

pub fn parse_nat(s: &str) -> Option<num_bigint::BigUint> {
    use num_traits::Num;
    if let Some(h) = s.strip_prefix("0x") {
        num_bigint::BigUint::from_str_radix(h, 16).ok()
    } else {
        num_bigint::BigUint::from_str_radix(s, 10).ok()
    }
}
