//! C04 — IL expression evaluation is exact fixed-width bit-vector arithmetic.
//! Requests are documented in lean/Drivers/C04.lean.
use falcon::executor::eval;
use falcon::il::{self, Constant, Expression as E};
use fvh::canon::{catch, const_str, parse_const, res_const};
use fvh::fil::{expr_str, mk_bin, read_expr, read_scalar, res_expr, BIN_OPS};
use fvh::sx::{parse_all, Sx};
use fvh::{run_main, Emit, Rng, Tier};
use num_bigint::BigUint;
use num_traits::{One, Zero};

fn bin_const(op: &str, a: &Constant, b: &Constant) -> Option<Result<Constant, falcon::Error>> {
    Some(match op {
        "add" => a.add(b),
        "sub" => a.sub(b),
        "mul" => a.mul(b),
        "divu" => a.divu(b),
        "modu" => a.modu(b),
        "divs" => a.divs(b),
        "mods" => a.mods(b),
        "and" => a.and(b),
        "or" => a.or(b),
        "xor" => a.xor(b),
        "shl" => a.shl(b),
        "shr" => a.shr(b),
        "ashr" => a.ashr(b),
        "cmpeq" => a.cmpeq(b),
        "cmpneq" => a.cmpneq(b),
        "cmplts" => a.cmplts(b),
        "cmpltu" => a.cmpltu(b),
        _ => return None,
    })
}

fn answer(line: &str) -> String {
    let bad = "bad-request".to_string();
    let xs = match parse_all(line) {
        Some(xs) => xs,
        None => return bad,
    };
    let head = xs.first().and_then(|x| x.atom()).unwrap_or("");
    match (head, &xs[1..]) {
        ("bin", [op, a, b]) => {
            let (op, a, b) = match (op.atom(), a.atom().and_then(parse_const), b.atom().and_then(parse_const)) {
                (Some(o), Some(a), Some(b)) => (o, a, b),
                _ => return bad,
            };
            res_const(catch(|| bin_const(op, &a, &b).unwrap()))
        }
        ("un", [op, m, a]) => {
            let (op, m, a) = match (op.atom(), m.usize(), a.atom().and_then(parse_const)) {
                (Some(o), Some(m), Some(a)) => (o, m, a),
                _ => return bad,
            };
            res_const(catch(|| match op {
                "zext" => a.zext(m),
                "sext" => a.sext(m),
                _ => a.trun(m),
            }))
        }
        ("eval", [e]) => match read_expr(e) {
            Some(e) => res_const(catch(|| eval(&e))),
            None => bad,
        },
        ("ctor", [op, l, r]) => match (op.atom(), read_expr(l), read_expr(r)) {
            (Some(op), Some(l), Some(r)) => res_expr(catch(|| mk_bin(op, l, r).unwrap())),
            _ => bad,
        },
        ("ctorx", [op, m, e]) => match (op.atom(), m.usize(), read_expr(e)) {
            (Some(op), Some(m), Some(e)) => res_expr(catch(|| match op {
                "zext" => E::zext(m, e),
                "sext" => E::sext(m, e),
                _ => E::trun(m, e),
            })),
            _ => bad,
        },
        ("ctori", [c, t, e]) => match (read_expr(c), read_expr(t), read_expr(e)) {
            (Some(c), Some(t), Some(e)) => res_expr(catch(|| E::ite(c, t, e))),
            _ => bad,
        },
        ("sra", [l, r]) => match (read_expr(l), read_expr(r)) {
            (Some(l), Some(r)) => res_const(catch(|| E::sra(l, r).and_then(|e| eval(&e)))),
            _ => bad,
        },
        ("rotl", [l, r]) => match (read_expr(l), read_expr(r)) {
            (Some(l), Some(r)) => res_const(catch(|| E::rotl(l, r).and_then(|e| eval(&e)))),
            _ => bad,
        },
        ("subst", [e, s, r]) => {
            let sc = s.list().and_then(|l| if l.first()?.atom()? == "s" { read_scalar(&l[1..]) } else { None });
            match (read_expr(e), sc, read_expr(r)) {
                (Some(e), Some(s), Some(r)) => res_expr(catch(|| e.replace_scalar(&s, &r))),
                _ => bad,
            }
        }
        // substeval <e> <scalar> <closed r> (val (name 0xv bits)…): substitute, bind the remaining scalars, evaluate
        ("substeval", [e, s, r, vals]) => {
            let sc = s.list().and_then(|l| if l.first()?.atom()? == "s" { read_scalar(&l[1..]) } else { None });
            let vs: Option<Vec<(il::Scalar, Constant)>> = vals.list().and_then(|l| {
                l.iter()
                    .skip(1)
                    .map(|x| {
                        let t = x.list()?;
                        let c = Constant::new_big(t[1].nat()?, t[2].usize()?);
                        Some((il::scalar(t[0].atom()?, t[2].usize()?), c))
                    })
                    .collect()
            });
            match (read_expr(e), sc, read_expr(r), vs) {
                (Some(e), Some(s), Some(r), Some(vs)) => res_const(catch(|| {
                    let mut cur = e.replace_scalar(&s, &r)?;
                    for (n, c) in &vs {
                        cur = cur.replace_scalar(n, &E::Constant(c.clone()))?;
                    }
                    eval(&cur)
                })),
                _ => bad,
            }
        }
        _ => bad,
    }
}

// ---------------------------------------------------------------- generators

const WIDTHS: [usize; 15] = [1, 2, 7, 8, 9, 31, 32, 33, 63, 64, 65, 127, 128, 129, 256];

fn pow2(n: usize) -> BigUint {
    BigUint::one() << n
}

fn rand_big(rng: &mut Rng, bits: usize) -> BigUint {
    let mut v = BigUint::zero();
    let mut got = 0;
    while got < bits {
        v = (v << 64) | BigUint::from(rng.next());
        got += 64;
    }
    v & (pow2(bits) - BigUint::one())
}

fn boundary_values(rng: &mut Rng, n: usize) -> Vec<BigUint> {
    let one = BigUint::one();
    let mut v = vec![BigUint::zero(), one.clone(), pow2(n) - &one, pow2(n - 1)];
    if n >= 2 {
        v.push(pow2(n - 1) - &one);
        v.push(BigUint::from(2u32));
    }
    v.push(rand_big(rng, n));
    v.push(rand_big(rng, n));
    v
}

fn shift_amounts(n: usize) -> Vec<BigUint> {
    let mut v: Vec<BigUint> = vec![
        BigUint::from(n as u64 - 1),
        BigUint::from(n as u64),
        BigUint::from(n as u64 + 1),
        BigUint::from(1u64 << 32),
        BigUint::from(1u64 << 63),
        BigUint::from(u64::MAX),
        pow2(64),
        pow2(64) + BigUint::one(),
        pow2(n) - BigUint::one(),
    ];
    v.retain(|x| x < &pow2(n));
    v.dedup();
    v
}

fn cstr(v: &BigUint, bits: usize) -> String {
    format!("0x{:x}:{}", v, bits)
}

/// shape of a binary request — the class used in finding signatures
fn bin_class(op: &str, abits: usize, a: &BigUint, bbits: usize, b: &BigUint) -> String {
    let shape = if abits != bbits {
        "mismatch".to_string()
    } else if matches!(op, "divu" | "modu" | "divs" | "mods") {
        if b.is_zero() {
            "zero-divisor".to_string()
        } else if matches!(op, "divs" | "mods") && a == &pow2(abits - 1) && b == &(pow2(abits) - BigUint::one()) {
            "intmin-by-minus1".to_string()
        } else {
            "ok".to_string()
        }
    } else if matches!(op, "shl" | "shr" | "ashr") {
        let neg = if op == "ashr" && a >= &pow2(abits - 1) { "neg," } else { "" };
        let n = BigUint::from(abits as u64);
        if b >= &pow2(64) {
            format!("{}amount>usize", neg)
        } else if b > &n {
            format!("{}amount>bits", neg)
        } else if b == &n {
            format!("{}amount=bits", neg)
        } else {
            format!("{}amount<bits", neg)
        }
    } else {
        "ok".to_string()
    };
    let wc = if abits <= 64 { "w<=64" } else { "w>64" };
    format!("bin/{}/{}/{}", op, shape, wc)
}

fn gen_bin(rng: &mut Rng, em: &mut Emit, tier: Tier) {
    // boundary grid: every operator x every boundary width x boundary value pairs
    for &n in WIDTHS.iter() {
        let vals = boundary_values(rng, n);
        for op in BIN_OPS.iter() {
            let bs: Vec<BigUint> = if matches!(*op, "shl" | "shr" | "ashr") {
                let mut s = shift_amounts(n);
                s.extend(vals.iter().cloned());
                s
            } else {
                vals.clone()
            };
            for a in vals.iter() {
                for b in bs.iter() {
                    em.case(&bin_class(op, n, a, n, b), format!("bin {} {} {}", op, cstr(a, n), cstr(b, n)));
                }
            }
        }
    }
    // random widths and values; small shift amounts around the width
    let n_rand = if tier == Tier::Quick { 20_000 } else { 2_000_000 };
    for _ in 0..n_rand {
        let n = if rng.chance(1, 3) { *rng.pick(&WIDTHS) } else { rng.range(1, 140) as usize };
        let op = *rng.pick(&BIN_OPS);
        let a = if rng.chance(1, 4) { boundary_values(rng, n)[rng.below(4) as usize].clone() } else { rand_big(rng, n) };
        let b = if matches!(op, "shl" | "shr" | "ashr") && rng.chance(3, 4) {
            BigUint::from(rng.below(2 * n as u64 + 3)) & (pow2(n) - BigUint::one())
        } else if rng.chance(1, 4) {
            boundary_values(rng, n)[rng.below(4) as usize].clone()
        } else if rng.chance(1, 3) {
            // small magnitudes make division results interesting
            { let k = 1 + (rng.below(n as u64) as usize); rand_big(rng, k) }
        } else {
            rand_big(rng, n)
        };
        em.case(&bin_class(op, n, &a, n, &b), format!("bin {} {} {}", op, cstr(&a, n), cstr(&b, n)));
    }
    // malformed: width mismatches
    for _ in 0..(n_rand / 20) {
        let n = rng.range(1, 130) as usize;
        let mut m = rng.range(1, 130) as usize;
        if m == n {
            m += 1;
        }
        let op = *rng.pick(&BIN_OPS);
        let (a, b) = (rand_big(rng, n), rand_big(rng, m));
        em.case(&bin_class(op, n, &a, m, &b), format!("bin {} {} {}", op, cstr(&a, n), cstr(&b, m)));
    }
}

fn gen_un(rng: &mut Rng, em: &mut Emit, tier: Tier) {
    let ops = ["zext", "sext", "trun"];
    for &n in WIDTHS.iter() {
        for &m in WIDTHS.iter().chain([3usize, 12, 24, 100].iter()) {
            for a in boundary_values(rng, n) {
                for op in ops.iter() {
                    let shape = if m == n { "same" } else if (m > n) == (*op != "trun") { "ok" } else { "wrong-direction" };
                    let m8 = if m % 8 == 0 { "m%8=0" } else { "m%8!=0" };
                    let sign = if a >= pow2(n - 1) { "neg" } else { "pos" };
                    em.case(&format!("un/{}/{}/{}/{}", op, shape, m8, sign), format!("un {} {} {}", op, m, cstr(&a, n)));
                }
            }
        }
    }
    let n_rand = if tier == Tier::Quick { 5_000 } else { 500_000 };
    for _ in 0..n_rand {
        let n = rng.range(1, 140) as usize;
        let m = rng.range(1, 260) as usize;
        let op = *rng.pick(&ops);
        let a = rand_big(rng, n);
        let shape = if m == n { "same" } else if (m > n) == (op != "trun") { "ok" } else { "wrong-direction" };
        let m8 = if m % 8 == 0 { "m%8=0" } else { "m%8!=0" };
        let sign = if a >= pow2(n - 1) { "neg" } else { "pos" };
        em.case(&format!("un/{}/{}/{}/{}", op, shape, m8, sign), format!("un {} {} {}", op, m, cstr(&a, n)));
    }
}

/// a random well-sorted closed tree of the given width (raw constructors: the tree is data)
fn gen_tree(rng: &mut Rng, bits: usize, depth: u32, malformed: bool) -> E {
    let leaf = |rng: &mut Rng, bits: usize| {
        let b = if malformed && rng.chance(1, 12) { bits + 1 + rng.below(3) as usize } else { bits };
        let v = if rng.chance(1, 3) { boundary_values(rng, b)[rng.below(4) as usize].clone() } else { rand_big(rng, b) };
        E::Constant(Constant::new_big(v, b))
    };
    if depth == 0 || rng.chance(1, 6) {
        return leaf(rng, bits);
    }
    let k = rng.below(100);
    let arith = ["add", "sub", "mul", "divu", "modu", "divs", "mods", "and", "or", "xor", "shl", "shr", "ashr"];
    let cmps = ["cmpeq", "cmpneq", "cmplts", "cmpltu"];
    if bits == 1 && k < 35 {
        let w = if rng.chance(1, 2) { *rng.pick(&WIDTHS) } else { rng.range(1, 70) as usize };
        let (l, r) = (gen_tree(rng, w, depth - 1, malformed), gen_tree(rng, w, depth - 1, malformed));
        let cop = *rng.pick(&cmps);
        return fvh::fil::raw_bin(cop, l, r).unwrap();
    }
    if k < 60 {
        let op = *rng.pick(&arith);
        let l = gen_tree(rng, bits, depth - 1, malformed);
        let r = if matches!(op, "shl" | "shr" | "ashr") && rng.chance(2, 3) {
            E::Constant(Constant::new_big(BigUint::from(rng.below(bits as u64 + 3)), bits))
        } else {
            gen_tree(rng, bits, depth - 1, malformed)
        };
        return fvh::fil::raw_bin(op, l, r).unwrap();
    }
    if k < 72 && bits > 1 {
        let w = rng.range(1, bits as u64 - 1) as usize;
        let c = Box::new(gen_tree(rng, w, depth - 1, malformed));
        return if rng.chance(1, 2) { E::Zext(bits, c) } else { E::Sext(bits, c) };
    }
    if k < 82 {
        let w = bits + rng.range(1, 70) as usize;
        return E::Trun(bits, Box::new(gen_tree(rng, w, depth - 1, malformed)));
    }
    if k < 95 {
        let c = gen_tree(rng, 1, depth - 1, malformed);
        let t = gen_tree(rng, bits, depth - 1, malformed);
        let e = gen_tree(rng, bits, depth - 1, malformed);
        return E::Ite(Box::new(c), Box::new(t), Box::new(e));
    }
    leaf(rng, bits)
}

fn depth_of(e: &E) -> usize {
    match e {
        E::Scalar(_) | E::Constant(_) => 0,
        E::Zext(_, x) | E::Sext(_, x) | E::Trun(_, x) => 1 + depth_of(x),
        E::Ite(c, t, x) => 1 + depth_of(c).max(depth_of(t)).max(depth_of(x)),
        E::Add(l, r) | E::Sub(l, r) | E::Mul(l, r) | E::Divu(l, r) | E::Modu(l, r) | E::Divs(l, r)
        | E::Mods(l, r) | E::And(l, r) | E::Or(l, r) | E::Xor(l, r) | E::Shl(l, r) | E::Shr(l, r)
        | E::AShr(l, r) | E::Cmpeq(l, r) | E::Cmpneq(l, r) | E::Cmplts(l, r) | E::Cmpltu(l, r) => {
            1 + depth_of(l).max(depth_of(r))
        }
    }
}

fn gen_eval(rng: &mut Rng, em: &mut Emit, tier: Tier) {
    let n = if tier == Tier::Quick { 15_000 } else { 1_000_000 };
    for i in 0..n {
        let malformed = i % 5 == 4;
        let bits = if rng.chance(1, 2) { *rng.pick(&WIDTHS) } else { rng.range(1, 130) as usize };
        let d = rng.range(1, 6) as u32;
        let e = gen_tree(rng, bits, d, malformed);
        let cls = format!("eval/{}/depth{}", if malformed { "malformed" } else { "wellsorted" }, depth_of(&e));
        em.case(&cls, format!("eval {}", expr_str(&e)));
    }
}

fn gen_leafy(rng: &mut Rng, bits: usize) -> E {
    // small open or closed expression of a given width for constructor / substitution requests
    match rng.below(4) {
        0 => il::expr_scalar(*rng.pick(&["a", "b", "c"]), bits),
        1 => E::Constant(Constant::new_big(rand_big(rng, bits), bits)),
        2 => E::Add(Box::new(il::expr_scalar("a", bits)), Box::new(E::Constant(Constant::new_big(rand_big(rng, bits), bits)))),
        _ => E::Cmpltu(Box::new(il::expr_scalar("b", bits)), Box::new(il::expr_scalar("a", bits))),
    }
}

fn gen_ctor(rng: &mut Rng, em: &mut Emit, tier: Tier) {
    let n = if tier == Tier::Quick { 4_000 } else { 200_000 };
    let ws = [0usize, 1, 7, 8, 16, 32, 64, 65, 128];
    for _ in 0..n {
        let (a, b) = (*rng.pick(&ws), if rng.chance(1, 2) { *rng.pick(&ws) } else { 0 });
        let b = if b == 0 && rng.chance(9, 10) { a } else { b };
        let (l, r) = (gen_leafy(rng, a), gen_leafy(rng, b));
        let op = *rng.pick(&BIN_OPS);
        let same = l.bits() == r.bits();
        em.case(&format!("ctor/{}/{}", op, if same { "same" } else { "mismatch" }), format!("ctor {} {} {}", op, expr_str(&l), expr_str(&r)));
        let m = *rng.pick(&ws);
        let xop = *rng.pick(&["zext", "sext", "trun"]);
        let rel = if l.bits() == 0 { "src0" } else if m > l.bits() { "m>src" } else if m == l.bits() { "m=src" } else { "m<src" };
        em.case(&format!("ctorx/{}/{}", xop, rel), format!("ctorx {} {} {}", xop, m, expr_str(&l)));
        let cw = if rng.chance(4, 5) { 1 } else { *rng.pick(&ws) };
        let c = gen_leafy(rng, cw);
        let ic = format!("ctori/cond{}/{}", if c.bits() == 1 { "=1" } else { "!=1" }, if same { "same" } else { "mismatch" });
        em.case(&ic, format!("ctori {} {} {}", expr_str(&c), expr_str(&l), expr_str(&r)));
    }
}

fn gen_derived(rng: &mut Rng, em: &mut Emit, tier: Tier) {
    // sra / rotl with amounts below, at and beyond the width
    let reps = if tier == Tier::Quick { 2 } else { 200 };
    for _ in 0..reps {
        for &n in WIDTHS.iter().chain([16usize, 24, 48, 100].iter()) {
            let mut amounts: Vec<BigUint> = (0..=(n as u64 + 2)).map(BigUint::from).filter(|x| x < &pow2(n)).collect();
            amounts.extend(shift_amounts(n));
            if amounts.len() > 24 {
                let keep: Vec<BigUint> = (0..24).map(|_| rng.pick(&amounts).clone()).collect();
                amounts = keep;
                amounts.push(BigUint::from(n as u64));
                amounts.push(BigUint::from(n as u64 + 1));
                amounts.retain(|x| x < &pow2(n));
            }
            for v in boundary_values(rng, n) {
                for s in amounts.iter() {
                    let rel = if s > &BigUint::from(n as u64) { "amount>bits" } else if s == &BigUint::from(n as u64) { "amount=bits" } else { "amount<bits" };
                    let sign = if v >= pow2(n - 1) { "neg" } else { "pos" };
                    let wc = if n <= 64 { "w<=64" } else { "w>64" };
                    let (l, r) = (format!("(c 0x{:x} {})", v, n), format!("(c 0x{:x} {})", s, n));
                    em.case(&format!("sra/{}/{}/{}", rel, sign, wc), format!("sra {} {}", l, r));
                    em.case(&format!("rotl/{}/{}", rel, wc), format!("rotl {} {}", l, r));
                }
            }
        }
    }
    // mismatched widths
    em.case("sra/mismatch", "sra (c 0x80 8) (c 0x1 16)".to_string());
    em.case("rotl/mismatch", "rotl (c 0x80 8) (c 0x1 16)".to_string());
}

fn gen_subst(rng: &mut Rng, em: &mut Emit, tier: Tier) {
    let n = if tier == Tier::Quick { 4_000 } else { 200_000 };
    let ws = [1usize, 8, 16, 32, 64, 128];
    for _ in 0..n {
        let bits = *rng.pick(&ws);
        // an open tree over scalars a,b,c of width `bits`
        let dd = rng.range(1, 4) as u32;
        let mut e = gen_tree(rng, bits, dd, false);
        // graft scalars in place of some constants
        fn graft(rng: &mut Rng, e: &mut E) {
            match e {
                E::Constant(c) => {
                    if rng.chance(1, 2) {
                        *e = il::expr_scalar(*rng.pick(&["a", "b", "c"]), c.bits());
                    }
                }
                E::Scalar(_) => {}
                E::Zext(_, x) | E::Sext(_, x) | E::Trun(_, x) => graft(rng, x),
                E::Ite(c, t, x) => {
                    graft(rng, c);
                    graft(rng, t);
                    graft(rng, x)
                }
                E::Add(l, r) | E::Sub(l, r) | E::Mul(l, r) | E::Divu(l, r) | E::Modu(l, r) | E::Divs(l, r)
                | E::Mods(l, r) | E::And(l, r) | E::Or(l, r) | E::Xor(l, r) | E::Shl(l, r) | E::Shr(l, r)
                | E::AShr(l, r) | E::Cmpeq(l, r) | E::Cmpneq(l, r) | E::Cmplts(l, r) | E::Cmpltu(l, r) => {
                    graft(rng, l);
                    graft(rng, r)
                }
            }
        }
        graft(rng, &mut e);
        let scalars: Vec<il::Scalar> = e.scalars().into_iter().cloned().collect();
        let target = if !scalars.is_empty() && rng.chance(9, 10) { rng.pick(&scalars).clone() } else { il::scalar("zz", bits) };
        let same_width = rng.chance(3, 4);
        let rb = if same_width { target.bits() } else { target.bits() + 8 };
        let repl = gen_leafy(rng, rb);
        let cls = format!("subst/{}/{}", if scalars.contains(&target) { "present" } else { "absent" }, if repl.bits() == target.bits() { "samewidth" } else { "otherwidth" });
        em.case(&cls, format!("subst {} {} {}", expr_str(&e), fvh::fil::scalar_str(&target), expr_str(&repl)));
        // the same substitution with a CLOSED replacement, all remaining scalars bound, then evaluated: here the
        // specification has an opinion (the value of `e` with the scalar bound to the value of the replacement)
        let closed = gen_tree(rng, target.bits(), 1, false);
        let mut names: Vec<il::Scalar> = scalars.clone();
        names.sort();
        names.dedup();
        let vals: Vec<String> = names
            .iter()
            .map(|sc| {
                let v = if rng.chance(1, 3) { boundary_values(rng, sc.bits())[rng.below(4) as usize].clone() } else { rand_big(rng, sc.bits()) };
                format!("({} 0x{:x} {})", sc.name(), v, sc.bits())
            })
            .collect();
        let ecls = format!("substeval/{}", if scalars.contains(&target) { "present" } else { "absent" });
        em.case(
            &ecls,
            format!("substeval {} {} {} (val {})", expr_str(&e), fvh::fil::scalar_str(&target), expr_str(&closed), vals.join(" ")),
        );
    }
}

fn generate(tier: Tier, rng: &mut Rng, em: &mut Emit) {
    let mut r1 = rng.fork();
    gen_bin(&mut r1, em, tier);
    let mut r2 = rng.fork();
    gen_un(&mut r2, em, tier);
    let mut r3 = rng.fork();
    gen_eval(&mut r3, em, tier);
    let mut r4 = rng.fork();
    gen_ctor(&mut r4, em, tier);
    let mut r5 = rng.fork();
    gen_derived(&mut r5, em, tier);
    let mut r6 = rng.fork();
    gen_subst(&mut r6, em, tier);
    let _ = const_str;
    let _: Option<Sx> = None;
}

fn main() {
    run_main(&generate, &answer);
}
