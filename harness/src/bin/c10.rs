//! C10 — SSA transformation yields valid SSA that preserves behaviour (pattern P3: verified checker).
//!
//! request  = one IL function `f` in FIL (unversioned, no phi nodes)
//! answer   = `g` in FIL where `g = transformation::ssa_transformation::ssa_transformation(&f)` (the REAL code;
//!            phi nodes and SSA versions are printed by `fil::function_str`), `panic` if the call panics,
//!            `err:<kind>` if it returns an error.
//! The Lean driver (lean/Drivers/C10.lean) receives request and answer, runs the verified validator `ssaCheck f g`
//! and, when it rejects, executes f and g side by side looking for a diverging run.
use falcon::il::{self, ControlFlowGraph, Expression as E, Function, Intrinsic, Operation};
use falcon::transformation::ssa_transformation;
use fvh::canon::{catch, err_str};
use fvh::fil::{function_str, read_function};
use fvh::genil::{gen_function, GenCfg};
use fvh::sx::parse_all;
use fvh::{run_main, Emit, Rng, Tier};

fn answer(req: &str) -> String {
    let f = match parse_all(req).and_then(|v| v.first().and_then(read_function)) {
        Some(f) => f,
        None => return "bad-request".to_string(),
    };
    match catch(|| ssa_transformation(&f)) {
        None => "panic".to_string(),
        Some(Err(e)) => err_str(&e).to_string(),
        Some(Ok(g)) => function_str(&g),
    }
}

// ---------------------------------------------------------------- generator configurations

fn names(ns: &[(&str, usize)]) -> Vec<(String, usize)> {
    ns.iter().map(|(n, b)| (n.to_string(), *b)).collect()
}

/// few names, several blocks: the same name is assigned in many blocks, guards read the same names
fn dense() -> GenCfg {
    GenCfg {
        names: names(&[("a", 8), ("b", 8), ("f", 1)]),
        max_blocks: 6,
        max_instrs: 3,
        expr_depth: 1,
        intrinsic: false,
        allow_div: false,
        ..GenCfg::default()
    }
}

/// guards are arbitrary 1-bit expressions (several out-edges may be enabled, or none)
fn free_guards() -> GenCfg {
    GenCfg {
        partition_guards: false,
        names: names(&[("a", 32), ("b", 32), ("f", 1), ("g", 1)]),
        max_instrs: 3,
        intrinsic: false,
        ..GenCfg::default()
    }
}

/// every block reachable, no self-loops, entry without predecessors: the textbook setting
fn textbook() -> GenCfg {
    GenCfg {
        names: names(&[("a", 32), ("b", 32), ("c", 32), ("f", 1)]),
        max_blocks: 7,
        max_instrs: 3,
        expr_depth: 1,
        unreachable: false,
        self_loops: false,
        entry_in_loop: false,
        intrinsic: false,
        ..GenCfg::default()
    }
}

fn intrinsics() -> GenCfg {
    GenCfg { names: names(&[("a", 32), ("b", 32), ("f", 1)]), max_blocks: 5, max_instrs: 4, expr_depth: 1, ..GenCfg::default() }
}

fn with_branch() -> GenCfg {
    GenCfg { branch: true, names: names(&[("a", 32), ("b", 32), ("f", 1), ("h", 8)]), max_instrs: 4, expr_depth: 1, ..GenCfg::default() }
}

/// many blocks, one or two names: deep dominator trees, irreducible loops
fn big_cfg() -> GenCfg {
    GenCfg {
        names: names(&[("a", 8), ("f", 1)]),
        max_blocks: 12,
        max_instrs: 2,
        expr_depth: 1,
        intrinsic: false,
        mem: false,
        allow_div: false,
        ..GenCfg::default()
    }
}

/// the malformed stream: take a generated function and re-declare one name at a second width in some places
/// (raw enum variants; the IL then is ill-sorted, SSA construction must still succeed and stay consistent)
fn two_widths(rng: &mut Rng) -> Function {
    let g = GenCfg { names: names(&[("a", 32), ("b", 32), ("f", 1)]), max_blocks: 5, max_instrs: 3, expr_depth: 1, intrinsic: false, mem: false, ..GenCfg::default() };
    let f = gen_function(rng, &g);
    let mut cfg = f.control_flow_graph().clone();
    for b in cfg.blocks_mut() {
        for ins in b.instructions_mut() {
            if rng.chance(1, 3) {
                if let Operation::Assign { dst, src } = ins.operation().clone() {
                    if dst.name() == "a" {
                        let wide = il::scalar("a", 64);
                        let src64 = E::Zext(64, Box::new(src));
                        *ins.operation_mut() = Operation::Assign { dst: wide, src: src64 };
                    }
                }
            }
        }
    }
    Function::new(f.address(), cfg)
}

// ---------------------------------------------------------------- hand-written shapes

fn s(n: &str) -> il::Scalar {
    il::scalar(n, 32)
}
fn es(n: &str) -> E {
    il::expr_scalar(n, 32)
}
fn c(v: u64) -> E {
    il::expr_const(v, 32)
}
fn not1(e: E) -> E {
    E::cmpeq(e, il::expr_const(0, 1)).unwrap()
}

fn directed(emit: &mut Emit) {
    // diamond: 0 -> {1,2} -> 3; x assigned on both arms and read by an INSTRUCTION of the join
    {
        let mut cfg = ControlFlowGraph::new();
        cfg.new_block().unwrap().assign(s("x"), c(0));
        cfg.new_block().unwrap().assign(s("x"), c(1));
        cfg.new_block().unwrap().assign(s("x"), c(2));
        cfg.new_block().unwrap().assign(s("y"), es("x"));
        let g = E::cmpeq(es("p"), c(0)).unwrap();
        cfg.conditional_edge(0, 1, g.clone()).unwrap();
        cfg.conditional_edge(0, 2, not1(g)).unwrap();
        cfg.unconditional_edge(1, 3).unwrap();
        cfg.unconditional_edge(2, 3).unwrap();
        cfg.set_entry(0).unwrap();
        cfg.set_exit(3).unwrap();
        emit.case("directed/diamond-instr-read", function_str(&Function::new(0x1000, cfg)));
    }
    // the same diamond, x read ONLY by the guards of the join's out-edges
    {
        let mut cfg = ControlFlowGraph::new();
        cfg.new_block().unwrap().assign(s("x"), c(0));
        cfg.new_block().unwrap().assign(s("x"), c(1));
        cfg.new_block().unwrap().assign(s("x"), c(2));
        cfg.new_block().unwrap().nop();
        cfg.new_block().unwrap().assign(s("y"), c(10));
        cfg.new_block().unwrap().assign(s("y"), c(20));
        let g = E::cmpeq(es("p"), c(0)).unwrap();
        cfg.conditional_edge(0, 1, g.clone()).unwrap();
        cfg.conditional_edge(0, 2, not1(g)).unwrap();
        cfg.unconditional_edge(1, 3).unwrap();
        cfg.unconditional_edge(2, 3).unwrap();
        let h = E::cmpeq(es("x"), c(1)).unwrap();
        cfg.conditional_edge(3, 4, h.clone()).unwrap();
        cfg.conditional_edge(3, 5, not1(h)).unwrap();
        cfg.set_entry(0).unwrap();
        emit.case("directed/diamond-guard-only-read", function_str(&Function::new(0x1000, cfg)));
    }
    // loop: 0 -> 1 -> 1 (while i < 5) -> 2 ; the loop condition is the only reader of i besides its own update
    {
        let mut cfg = ControlFlowGraph::new();
        cfg.new_block().unwrap().assign(s("i"), c(0));
        cfg.new_block().unwrap().assign(s("i"), E::add(es("i"), c(1)).unwrap());
        cfg.new_block().unwrap().assign(s("r"), es("i"));
        let lt = E::cmpltu(es("i"), c(5)).unwrap();
        cfg.unconditional_edge(0, 1).unwrap();
        cfg.conditional_edge(1, 1, lt.clone()).unwrap();
        cfg.conditional_edge(1, 2, not1(lt)).unwrap();
        cfg.set_entry(0).unwrap();
        cfg.set_exit(2).unwrap();
        emit.case("directed/loop", function_str(&Function::new(0x1000, cfg)));
    }
    // a counter updated in the loop body, tested only by the loop header's guards (header has no instruction)
    {
        let mut cfg = ControlFlowGraph::new();
        cfg.new_block().unwrap().assign(s("i"), c(0));
        cfg.new_block().unwrap().nop();
        cfg.new_block().unwrap().assign(s("i"), E::add(es("i"), c(1)).unwrap());
        cfg.new_block().unwrap().nop();
        let lt = E::cmpltu(es("i"), c(3)).unwrap();
        cfg.unconditional_edge(0, 1).unwrap();
        cfg.conditional_edge(1, 2, lt.clone()).unwrap();
        cfg.conditional_edge(1, 3, not1(lt)).unwrap();
        cfg.unconditional_edge(2, 1).unwrap();
        cfg.set_entry(0).unwrap();
        cfg.set_exit(3).unwrap();
        emit.case("directed/loop-header-guard-only-read", function_str(&Function::new(0x1000, cfg)));
    }
    // loop through the entry block: the entry has a predecessor, its phi nodes get an `entry` operand
    {
        let mut cfg = ControlFlowGraph::new();
        cfg.new_block().unwrap().assign(s("x"), E::add(es("x"), c(1)).unwrap());
        cfg.new_block().unwrap().assign(s("y"), es("x"));
        let lt = E::cmpltu(es("x"), c(4)).unwrap();
        cfg.conditional_edge(0, 0, lt.clone()).unwrap();
        cfg.conditional_edge(0, 1, not1(lt)).unwrap();
        cfg.set_entry(0).unwrap();
        cfg.set_exit(1).unwrap();
        emit.case("directed/entry-self-loop", function_str(&Function::new(0x1000, cfg)));
    }
    // an unreachable block that assigns a name also assigned in reachable code and jumps into it
    {
        let mut cfg = ControlFlowGraph::new();
        cfg.new_block().unwrap().assign(s("x"), c(1));
        cfg.new_block().unwrap().assign(s("y"), es("x"));
        cfg.new_block().unwrap().assign(s("x"), c(7));
        cfg.unconditional_edge(0, 1).unwrap();
        cfg.unconditional_edge(2, 1).unwrap();
        cfg.set_entry(0).unwrap();
        emit.case("directed/unreachable-pred", function_str(&Function::new(0x1000, cfg)));
    }
    // no entry block: the property's premise fails, falcon answers with an error
    {
        let mut cfg = ControlFlowGraph::new();
        cfg.new_block().unwrap().assign(s("x"), c(1));
        emit.case("directed/no-entry", function_str(&Function::new(0x1000, cfg)));
    }
    // intrinsic with declared writes in one arm of a diamond
    {
        let mut cfg = ControlFlowGraph::new();
        cfg.new_block().unwrap().assign(s("x"), c(0));
        cfg.new_block().unwrap().intrinsic(Intrinsic::new("rd", "rd", Vec::new(), Some(vec![es("x")]), Some(vec![es("p")]), vec![0x0f, 0x31]));
        cfg.new_block().unwrap().nop();
        cfg.new_block().unwrap().assign(s("y"), es("x"));
        let g = E::cmpeq(es("p"), c(0)).unwrap();
        cfg.conditional_edge(0, 1, g.clone()).unwrap();
        cfg.conditional_edge(0, 2, not1(g)).unwrap();
        cfg.unconditional_edge(1, 3).unwrap();
        cfg.unconditional_edge(2, 3).unwrap();
        cfg.set_entry(0).unwrap();
        emit.case("directed/intrinsic-write", function_str(&Function::new(0x1000, cfg)));
    }
}

/// small scope, exhaustive over the CFG shape: every edge set over `n` blocks (entry 0; 2^(n*n) graphs, including
/// self-loops, loops through the entry, unreachable and irreducible parts), two names, every block filled from a
/// small menu (random per graph), partition guards reading the names
fn shapes(n: usize, fills: usize, rng: &mut Rng, emit: &mut Emit) {
    let g = GenCfg { names: names(&[("x", 8), ("y", 8)]), expr_depth: 1, ..GenCfg::default() };
    let x = || il::scalar("x", 8);
    let y = || il::scalar("y", 8);
    let ex = || il::expr_scalar("x", 8);
    let ey = || il::expr_scalar("y", 8);
    let c8 = |v: u64| il::expr_const(v, 8);
    let cls = format!("shapes/n={}", n);
    for mask in 0u64..(1u64 << (n * n)) {
        for _ in 0..fills {
            let mut cfg = ControlFlowGraph::new();
            for _ in 0..n {
                let b = cfg.new_block().unwrap();
                let k = rng.below(3);
                for _ in 0..k {
                    match rng.below(7) {
                        0 => b.assign(x(), c8(rng.below(4))),
                        1 => b.assign(x(), E::add(ex(), c8(1)).unwrap()),
                        2 => b.assign(y(), ex()),
                        3 => b.assign(y(), E::add(ey(), ex()).unwrap()),
                        4 => b.assign(x(), ey()),
                        5 => b.assign(y(), c8(rng.below(4))),
                        _ => b.nop(),
                    }
                }
            }
            for h in 0..n {
                let tails: Vec<usize> = (0..n).filter(|t| mask >> (h * n + t) & 1 == 1).collect();
                let guards = fvh::genil::partition_guards(rng, &g, tails.len());
                for (t, c) in tails.iter().zip(guards) {
                    match c {
                        None => cfg.unconditional_edge(h, *t).unwrap(),
                        Some(c) => cfg.conditional_edge(h, *t, c).unwrap(),
                    }
                }
            }
            cfg.set_entry(0).unwrap();
            emit.case(&cls, function_str(&Function::new(0x1000, cfg)));
        }
    }
}

fn generate(tier: Tier, rng: &mut Rng, emit: &mut Emit) {
    directed(emit);
    match tier {
        Tier::Quick => {
            shapes(2, 4, rng, emit);
            shapes(3, 1, rng, emit);
        }
        Tier::Thorough => {
            shapes(2, 16, rng, emit);
            shapes(3, 8, rng, emit);
            shapes(4, 1, rng, emit);
        }
    }
    let n = match tier {
        Tier::Quick => 600,
        Tier::Thorough => 9000,
    };
    let streams: Vec<(&str, GenCfg)> = vec![
        ("rand/default", GenCfg::default()),
        ("rand/dense", dense()),
        ("rand/textbook", textbook()),
        ("rand/free-guards", free_guards()),
        ("rand/intrinsics", intrinsics()),
        ("rand/branch", with_branch()),
        ("rand/big-cfg", big_cfg()),
    ];
    for _ in 0..n {
        for (cls, g) in &streams {
            let f = gen_function(rng, g);
            emit.case(cls, function_str(&f));
        }
        let f = two_widths(rng);
        emit.case("rand/two-widths", function_str(&f));
    }
}

fn main() {
    run_main(&generate, &answer);
}
