//! C11 — the graph container keeps its four views consistent and the graph algorithms compute what their
//! names say (reachability, dominators, dominance frontiers, natural loops, reducibility, orders).
//! Requests and answers are documented in lean/Drivers/C11.lean.
use falcon::graph::{Edge, Graph, Loop, NullEdge, NullVertex, Vertex};
use fvh::canon::catch;
use fvh::{run_main, Emit, Rng, Tier};
use std::collections::{BTreeMap, BTreeSet};

type G = Graph<NullVertex, NullEdge>;

fn gerr(e: &falcon::Error) -> String {
    match e {
        falcon::Error::GraphVertexNotFound(v) => format!("err:vnf:{}", v),
        falcon::Error::GraphEdgeNotFound(h, t) => format!("err:enf:{}>{}", h, t),
        falcon::Error::Custom(_) => "err:custom".to_string(),
        falcon::Error::Chain(a, _) => gerr(a),
        _ => "err:other".to_string(),
    }
}

// ---------------------------------------------------------------- printers

fn csv(xs: &[usize]) -> String {
    xs.iter().map(|x| x.to_string()).collect::<Vec<_>>().join(",")
}

fn sorted(mut xs: Vec<usize>) -> Vec<usize> {
    xs.sort_unstable();
    xs
}

fn plus(xs: &[usize]) -> String {
    xs.iter().map(|x| x.to_string()).collect::<Vec<_>>().join("+")
}

fn edges_str(mut es: Vec<(usize, usize)>) -> String {
    es.sort_unstable();
    es.iter().map(|(h, t)| format!("{}>{}", h, t)).collect::<Vec<_>>().join(",")
}

/// `k:a+b,...` sorted by key, values sorted
fn keyed(m: Vec<(usize, Vec<usize>)>) -> String {
    let mut m = m;
    m.sort_by_key(|e| e.0);
    m.into_iter().map(|(k, v)| format!("{}:{}", k, plus(&sorted(v)))).collect::<Vec<_>>().join(",")
}

/// one section from a call that returns a Result: panic / error string / formatted value
fn sec<T>(r: Option<Result<T, falcon::Error>>, f: impl FnOnce(T) -> String) -> String {
    match r {
        None => "panic".to_string(),
        Some(Err(e)) => gerr(&e),
        Some(Ok(v)) => f(v),
    }
}

/// one section from a call that cannot fail (but can panic)
fn sec_plain<T>(r: Option<T>, f: impl FnOnce(T) -> String) -> String {
    match r {
        None => "panic".to_string(),
        Some(v) => f(v),
    }
}

// ---------------------------------------------------------------- request parsing

fn parse_list(s: &str) -> Option<Vec<usize>> {
    if s == "-" || s.is_empty() {
        return Some(vec![]);
    }
    s.split(',').map(|x| x.parse::<usize>().ok()).collect()
}

fn parse_edges(s: &str) -> Option<Vec<(usize, usize)>> {
    if s == "-" || s.is_empty() {
        return Some(vec![]);
    }
    s.split(',')
        .map(|e| {
            let (h, t) = e.split_once('>')?;
            Some((h.parse::<usize>().ok()?, t.parse::<usize>().ok()?))
        })
        .collect()
}

/// the harness's own reachability (not falcon's): vertices of `vs` reachable from `r` along `es`
fn own_reach(vs: &[usize], es: &[(usize, usize)], r: usize) -> BTreeSet<usize> {
    let mut seen = BTreeSet::new();
    if !vs.contains(&r) {
        return seen;
    }
    let mut succ: BTreeMap<usize, Vec<usize>> = BTreeMap::new();
    for &(h, t) in es {
        succ.entry(h).or_default().push(t);
    }
    let mut queue = std::collections::VecDeque::new();
    seen.insert(r);
    queue.push_back(r);
    while let Some(v) = queue.pop_front() {
        if let Some(ss) = succ.get(&v) {
            for &s in ss {
                if seen.insert(s) {
                    queue.push_back(s);
                }
            }
        }
    }
    seen
}

// ---------------------------------------------------------------- kind 1: queries

fn answer_query(vs: &[usize], es: &[(usize, usize)], r: usize) -> String {
    let built = catch(|| {
        let mut g: G = Graph::new();
        for &v in vs {
            g.insert_vertex(NullVertex::new(v)).ok()?;
        }
        for &(h, t) in es {
            g.insert_edge(NullEdge::new(h, t)).ok()?;
        }
        Some(g)
    });
    let g = match built {
        Some(Some(g)) => g,
        _ => return "bad-request".to_string(),
    };
    let g = &g;
    let reach = own_reach(vs, es, r);
    let reach = &reach;
    let mut out: Vec<(&str, String)> = Vec::new();

    out.push(("reach", sec(catch(|| g.reachable_vertices(r)), |s| csv(&sorted(s.into_iter().collect())))));
    out.push(("unreach", sec(catch(|| g.unreachable_vertices(r)), |s| csv(&sorted(s.into_iter().collect())))));
    out.push((
        "idom",
        sec(catch(|| g.compute_immediate_dominators(r)), |m| {
            let mut xs: Vec<(usize, usize)> = m.iter().map(|(v, d)| (*v, *d)).filter(|(v, _)| reach.contains(v)).collect();
            xs.sort_unstable();
            xs.iter().map(|(v, d)| format!("{}:{}", v, d)).collect::<Vec<_>>().join(",")
        }),
    ));
    out.push((
        "doms",
        sec(catch(|| g.compute_dominators(r)), |m| {
            keyed(m.iter().filter(|(v, _)| reach.contains(v)).map(|(v, ds)| (*v, ds.iter().cloned().collect())).collect())
        }),
    ));
    out.push((
        "domtree",
        sec(catch(|| g.compute_dominator_tree(r)), |t| {
            edges_str(t.edges().iter().map(|e| (e.head(), e.tail())).filter(|(_, v)| reach.contains(v)).collect())
        }),
    ));
    out.push((
        "df",
        sec(catch(|| g.compute_dominance_frontiers(r)), |m| {
            keyed(m.iter().filter(|(n, _)| reach.contains(n)).map(|(n, ws)| (*n, ws.iter().cloned().collect())).collect())
        }),
    ));
    out.push((
        "loops",
        sec(catch(|| g.compute_loops(r)), |ls: Vec<Loop>| {
            keyed(ls.iter().map(|l| (l.header(), l.nodes().iter().cloned().collect())).collect())
        }),
    ));
    out.push((
        "looptree",
        sec(catch(|| g.compute_loop_tree(r)), |t| edges_str(t.edges().iter().map(|e| (e.head(), e.tail())).collect())),
    ));
    out.push(("red", sec(catch(|| g.is_reducible(r)), |b| b.to_string())));
    out.push(("acyc", sec_plain(catch(|| g.is_acyclic(r)), |b| b.to_string())));
    out.push((
        "tpreds",
        sec(catch(|| g.compute_predecessors()), |m| {
            keyed(m.iter().map(|(v, ps)| (*v, ps.iter().cloned().collect())).collect())
        }),
    ));
    out.push((
        "nopred",
        sec_plain(catch(|| g.vertices_without_predecessors().iter().map(|v| v.index()).collect::<Vec<usize>>()), |xs| {
            csv(&sorted(xs))
        }),
    ));
    out.push((
        "nosucc",
        sec_plain(catch(|| g.vertices_without_successors().iter().map(|v| v.index()).collect::<Vec<usize>>()), |xs| {
            csv(&sorted(xs))
        }),
    ));
    out.push(("pre", sec(catch(|| g.compute_pre_order(r)), |xs| csv(&xs))));
    out.push(("post", sec(catch(|| g.compute_post_order(r)), |xs| csv(&xs))));
    out.push(("topo", sec(catch(|| g.compute_topological_ordering()), |xs| csv(&xs))));
    out.push((
        "cacyc",
        sec(catch(|| g.compute_acyclic(r)), |a| {
            let vs2 = sorted(a.vertices().iter().map(|v| v.index()).collect());
            let es2 = edges_str(a.edges().iter().map(|e| (e.head(), e.tail())).collect());
            let l = if vs2.is_empty() { "-".to_string() } else { csv(&vs2) };
            let r = if es2.is_empty() { "-".to_string() } else { es2 };
            format!("{};{}", l, r)
        }),
    ));
    out.iter().map(|(n, v)| format!("{}={}", n, v)).collect::<Vec<_>>().join(" | ")
}

// ---------------------------------------------------------------- kind 2: edit histories

#[derive(Clone, Copy, Debug)]
enum Op {
    Iv(usize),
    Ie(usize, usize),
    Re(usize, usize),
    Rv(usize),
    Ru(usize),
}

fn parse_op(s: &str) -> Option<Op> {
    let ws: Vec<&str> = s.split(' ').filter(|w| !w.is_empty()).collect();
    let n = |i: usize| ws.get(i).and_then(|w| w.parse::<usize>().ok());
    match (ws.first().copied(), ws.len()) {
        (Some("iv"), 2) => Some(Op::Iv(n(1)?)),
        (Some("ie"), 3) => Some(Op::Ie(n(1)?, n(2)?)),
        (Some("re"), 3) => Some(Op::Re(n(1)?, n(2)?)),
        (Some("rv"), 2) => Some(Op::Rv(n(1)?)),
        (Some("ru"), 2) => Some(Op::Ru(n(1)?)),
        _ => None,
    }
}

fn keyed_opt(m: &[(usize, Option<Vec<usize>>)]) -> String {
    let mut m: Vec<&(usize, Option<Vec<usize>>)> = m.iter().collect();
    m.sort_by_key(|e| e.0);
    m.iter()
        .map(|(k, v)| match v {
            Some(v) => format!("{}:{}", k, plus(&sorted(v.clone()))),
            None => format!("{}:!", k),
        })
        .collect::<Vec<_>>()
        .join(",")
}

fn same_set(a: &[usize], b: &[usize]) -> bool {
    sorted(a.to_vec()) == sorted(b.to_vec())
}

/// the four views of the container read through the public API, plus the cross-checks
fn dump_graph(g: &G) -> String {
    let vs: Vec<usize> = match catch(|| g.vertices().iter().map(|v| v.index()).collect::<Vec<usize>>()) {
        Some(v) => v,
        None => return "V=! E=! S=! P=! INCONSISTENT:vertices()-panics".to_string(),
    };
    let es: Vec<(usize, usize)> = match catch(|| g.edges().iter().map(|e| (e.head(), e.tail())).collect::<Vec<_>>()) {
        Some(e) => e,
        None => return format!("V={} E=! S=! P=! INCONSISTENT:edges()-panics", csv(&sorted(vs))),
    };
    let flat = |r: Option<Result<Vec<usize>, falcon::Error>>| -> Option<Vec<usize>> { r.and_then(|x| x.ok()) };
    let s: Vec<(usize, Option<Vec<usize>>)> = vs.iter().map(|&v| (v, flat(catch(|| g.successor_indices(v))))).collect();
    let p: Vec<(usize, Option<Vec<usize>>)> = vs.iter().map(|&v| (v, flat(catch(|| g.predecessor_indices(v))))).collect();
    let mut bad: Vec<String> = Vec::new();
    if catch(|| g.num_vertices()) != Some(vs.len()) {
        bad.push("num_vertices".to_string());
    }
    for &v in &vs {
        if catch(|| g.has_vertex(v)) != Some(true) {
            bad.push(format!("has_vertex({})", v));
        }
    }
    for &(h, t) in &es {
        if catch(|| g.has_edge(h, t)) != Some(true) {
            bad.push(format!("has_edge({},{})", h, t));
        }
    }
    for (v, sv) in &s {
        let v = *v;
        let eo = flat(catch(|| {
            g.edges_out(v).map(|es| {
                if es.iter().all(|e| e.head() == v) { es.iter().map(|e| e.tail()).collect::<Vec<usize>>() } else { vec![usize::MAX] }
            })
        }));
        let ok = match (&eo, sv) {
            (Some(a), Some(b)) => same_set(a, b),
            _ => false,
        };
        if !ok {
            bad.push(format!("edges_out({})", v));
        }
        let sr = flat(catch(|| g.successors(v).map(|xs| xs.iter().map(|x| x.index()).collect::<Vec<usize>>())));
        let ok = match (&sr, sv) {
            (Some(a), Some(b)) => same_set(a, b),
            _ => false,
        };
        if !ok {
            bad.push(format!("successors({})", v));
        }
    }
    for (v, pv) in &p {
        let v = *v;
        let ei = flat(catch(|| {
            g.edges_in(v).map(|es| {
                if es.iter().all(|e| e.tail() == v) { es.iter().map(|e| e.head()).collect::<Vec<usize>>() } else { vec![usize::MAX] }
            })
        }));
        let ok = match (&ei, pv) {
            (Some(a), Some(b)) => same_set(a, b),
            _ => false,
        };
        if !ok {
            bad.push(format!("edges_in({})", v));
        }
        let pr = flat(catch(|| g.predecessors(v).map(|xs| xs.iter().map(|x| x.index()).collect::<Vec<usize>>())));
        let ok = match (&pr, pv) {
            (Some(a), Some(b)) => same_set(a, b),
            _ => false,
        };
        if !ok {
            bad.push(format!("predecessors({})", v));
        }
    }
    let mut out = format!("V={} E={} S={} P={}", csv(&sorted(vs)), edges_str(es), keyed_opt(&s), keyed_opt(&p));
    if !bad.is_empty() {
        out.push_str(" INCONSISTENT:");
        out.push_str(&bad.join("+"));
    }
    out
}

/// outcome of a per-vertex list query: `Ok(sorted ids)` / `Err(text)` (error kind or `panic`)
fn lq(r: Option<Result<Vec<usize>, falcon::Error>>) -> Result<Vec<usize>, String> {
    match r {
        None => Err("panic".to_string()),
        Some(Err(e)) => Err(gerr(&e)),
        Some(Ok(v)) => Ok(sorted(v)),
    }
}

fn lq_str(r: &Result<Vec<usize>, String>) -> String {
    match r {
        Ok(v) => plus(v),
        Err(e) => e.clone(),
    }
}

/// every public per-vertex query on every id the history ever mentions (and one it never mentions), every
/// per-edge query on every pair it mentions.  `Q=ok` when each id answers in one of the two consistent ways:
/// present (listed by vertices(), has_vertex, vertex Ok, the three successor queries Ok and equal, the three
/// predecessor queries Ok and equal) or absent (not listed, !has_vertex, all seven other queries
/// Err(GraphVertexNotFound(id))); anything else is printed in full after `Q=!`.  Likewise `X=` for pairs.
fn probe(g: &G, ids: &[usize], pairs: &[(usize, usize)]) -> String {
    let vs: Vec<usize> = catch(|| g.vertices().iter().map(|v| v.index()).collect::<Vec<usize>>()).unwrap_or_default();
    let es: Vec<(usize, usize)> =
        catch(|| g.edges().iter().map(|e| (e.head(), e.tail())).collect::<Vec<_>>()).unwrap_or_default();
    let mut qbad: Vec<String> = Vec::new();
    for &v in ids {
        let listed = vs.contains(&v);
        let hv = catch(|| g.has_vertex(v));
        let vx = match catch(|| g.vertex(v).map(|x| x.index())) {
            None => "panic".to_string(),
            Some(Ok(i)) => if i == v { "ok".to_string() } else { format!("ok:{}", i) },
            Some(Err(e)) => gerr(&e),
        };
        let ei = lq(catch(|| {
            g.edges_in(v).map(|es| {
                if es.iter().all(|e| e.tail() == v) { es.iter().map(|e| e.head()).collect::<Vec<usize>>() } else { vec![usize::MAX] }
            })
        }));
        let eo = lq(catch(|| {
            g.edges_out(v).map(|es| {
                if es.iter().all(|e| e.head() == v) { es.iter().map(|e| e.tail()).collect::<Vec<usize>>() } else { vec![usize::MAX] }
            })
        }));
        let su = lq(catch(|| g.successors(v).map(|xs| xs.iter().map(|x| x.index()).collect::<Vec<usize>>())));
        let pr = lq(catch(|| g.predecessors(v).map(|xs| xs.iter().map(|x| x.index()).collect::<Vec<usize>>())));
        let si = lq(catch(|| g.successor_indices(v)));
        let pi = lq(catch(|| g.predecessor_indices(v)));
        let vnf = Err(format!("err:vnf:{}", v));
        let present = listed && hv == Some(true) && vx == "ok" && si.is_ok() && su == si && eo == si && pi.is_ok() && pr == pi && ei == pi;
        let absent = !listed && hv == Some(false) && vx == format!("err:vnf:{}", v)
            && ei == vnf && eo == vnf && su == vnf && pr == vnf && si == vnf && pi == vnf;
        if !(present || absent) {
            let hvs = match hv { Some(true) => "t", Some(false) => "f", None => "panic" };
            qbad.push(format!(
                "{}:listed={},hv={},vx={},ei={},eo={},su={},pr={},si={},pi={}",
                v, if listed { "t" } else { "f" }, hvs, vx, lq_str(&ei), lq_str(&eo), lq_str(&su), lq_str(&pr), lq_str(&si), lq_str(&pi)
            ));
        }
    }
    let mut xbad: Vec<String> = Vec::new();
    for &(h, t) in pairs {
        let listed = es.contains(&(h, t));
        let he = catch(|| g.has_edge(h, t));
        let ed = match catch(|| g.edge(h, t).map(|e| (e.head(), e.tail()))) {
            None => "panic".to_string(),
            Some(Ok(e)) => if e == (h, t) { "ok".to_string() } else { format!("ok:{}>{}", e.0, e.1) },
            Some(Err(e)) => gerr(&e),
        };
        let present = listed && he == Some(true) && ed == "ok";
        let absent = !listed && he == Some(false) && ed == format!("err:enf:{}>{}", h, t);
        if !(present || absent) {
            let hes = match he { Some(true) => "t", Some(false) => "f", None => "panic" };
            xbad.push(format!("{}>{}:listed={},he={},ed={}", h, t, if listed { "t" } else { "f" }, hes, ed));
        }
    }
    let q = if qbad.is_empty() { "ok".to_string() } else { format!("!{}", qbad.join("/")) };
    let x = if xbad.is_empty() { "ok".to_string() } else { format!("!{}", xbad.join("/")) };
    format!("Q={} X={}", q, x)
}

/// falcon's graph compared (`==`, derived over all four maps) with a graph rebuilt from its own vertices()/edges()
fn eq_rebuilt(g: &G) -> String {
    match catch(|| {
        let mut r: G = Graph::new();
        for v in g.vertices() {
            r.insert_vertex(v.clone()).ok()?;
        }
        for e in g.edges() {
            r.insert_edge(e.clone()).ok()?;
        }
        Some(*g == r && r == *g && g.cmp(&r) == std::cmp::Ordering::Equal)
    }) {
        None => "eq-rebuilt=panic".to_string(),
        Some(None) => "eq-rebuilt=rebuild-failed".to_string(),
        Some(Some(b)) => format!("eq-rebuilt={}", b),
    }
}

fn answer_history(line: &str) -> String {
    let ops: Option<Vec<Op>> = line.split(" ; ").map(parse_op).collect();
    let ops = match ops {
        Some(o) => o,
        None => return "bad-request".to_string(),
    };
    // every id / pair the history mentions anywhere, plus one id it never mentions
    let mut ids: Vec<usize> = Vec::new();
    let mut pairs: Vec<(usize, usize)> = Vec::new();
    for op in &ops {
        match op {
            Op::Iv(v) | Op::Rv(v) | Op::Ru(v) => ids.push(*v),
            Op::Ie(h, t) | Op::Re(h, t) => {
                ids.push(*h);
                ids.push(*t);
                pairs.push((*h, *t));
            }
        }
    }
    ids.push(ids.iter().max().map(|m| m + 1).unwrap_or(0));
    ids.sort_unstable();
    ids.dedup();
    pairs.sort_unstable();
    pairs.dedup();
    let mut g: G = Graph::new();
    let mut dead = false;
    let mut out: Vec<String> = Vec::new();
    for op in ops {
        if dead {
            out.push("dead".to_string());
            continue;
        }
        let gm = &mut g;
        let r = catch(move || match op {
            Op::Iv(v) => gm.insert_vertex(NullVertex::new(v)),
            Op::Ie(h, t) => gm.insert_edge(NullEdge::new(h, t)),
            Op::Re(h, t) => gm.remove_edge(h, t),
            Op::Rv(v) => gm.remove_vertex(v),
            Op::Ru(v) => gm.remove_unreachable_vertices(v),
        });
        match r {
            None => {
                dead = true;
                out.push("panic".to_string());
            }
            Some(Ok(())) => out.push(format!("ok {} {}", dump_graph(&g), probe(&g, &ids, &pairs))),
            Some(Err(e)) => out.push(format!("{} {} {}", gerr(&e), dump_graph(&g), probe(&g, &ids, &pairs))),
        }
    }
    out.push(if dead { "eq-rebuilt=dead".to_string() } else { eq_rebuilt(&g) });
    out.join(" ; ")
}

fn answer(line: &str) -> String {
    let bad = "bad-request".to_string();
    let ws: Vec<&str> = line.split(' ').filter(|w| !w.is_empty()).collect();
    match ws.first().copied() {
        Some("chk") => "-".to_string(),
        Some("q") => {
            if ws.len() != 4 {
                return bad;
            }
            match (parse_list(ws[1]), parse_edges(ws[2]), ws[3].parse::<usize>().ok()) {
                (Some(vs), Some(es), Some(r)) => answer_query(&vs, &es, r),
                _ => bad,
            }
        }
        _ => answer_history(line),
    }
}

// ---------------------------------------------------------------- generators

/// a graph on positions 0..n (positions are mapped to ids when the request is printed)
#[derive(Clone)]
struct Shape {
    n: usize,
    edges: Vec<(usize, usize)>,
}

impl Shape {
    fn succ(&self) -> Vec<Vec<usize>> {
        let mut s = vec![Vec::new(); self.n];
        for &(h, t) in &self.edges {
            s[h].push(t);
        }
        s
    }
}

fn reach_from(succ: &[Vec<usize>], r: usize, deleted: Option<usize>) -> Vec<bool> {
    let mut seen = vec![false; succ.len()];
    if Some(r) == deleted {
        return seen;
    }
    seen[r] = true;
    let mut stack = vec![r];
    while let Some(v) = stack.pop() {
        for &s in &succ[v] {
            if Some(s) != deleted && !seen[s] {
                seen[s] = true;
                stack.push(s);
            }
        }
    }
    seen
}

/// is there a cycle among the vertices `keep` using `edges` (self-loops count only if `with_self`)
fn has_cycle(n: usize, edges: &[(usize, usize)], keep: &[bool], with_self: bool) -> bool {
    // Kahn: repeatedly remove vertices of in-degree 0
    let mut indeg = vec![0usize; n];
    let mut succ = vec![Vec::new(); n];
    for &(h, t) in edges {
        if keep[h] && keep[t] && (with_self || h != t) {
            indeg[t] += 1;
            succ[h].push(t);
        }
    }
    let mut stack: Vec<usize> = (0..n).filter(|&v| keep[v] && indeg[v] == 0).collect();
    let mut removed = 0;
    while let Some(v) = stack.pop() {
        removed += 1;
        for &s in &succ[v] {
            indeg[s] -= 1;
            if indeg[s] == 0 {
                stack.push(s);
            }
        }
    }
    removed != keep.iter().filter(|&&k| k).count()
}

/// the class of a query: computed by the harness's own simple reference algorithms
fn query_class(prefix: &str, sh: &Shape, root: Option<usize>) -> String {
    let r = match root {
        Some(r) => r,
        None => return format!("{}/noroot", prefix),
    };
    let succ = sh.succ();
    let reach = reach_from(&succ, r, None);
    let has_pred = sh.edges.iter().any(|&(_, t)| t == r);
    let on_cycle = succ[r].iter().any(|&s| s == r || reach_from(&succ, s, None)[r]);
    let rk = if !has_pred { "root" } else if on_cycle { "inloop" } else { "mid" };
    let all = reach.iter().all(|&b| b);
    let cyc = if has_cycle(sh.n, &sh.edges, &reach, false) {
        "cyclic"
    } else if sh.edges.iter().any(|&(h, t)| h == t && reach[h]) {
        "selfloop"
    } else {
        "acyclic"
    };
    // dominators by the definition: d dom v  iff  v reachable and v not reachable once d is deleted
    let mut dom = vec![vec![false; sh.n]; sh.n]; // dom[d][v]
    for d in 0..sh.n {
        if !reach[d] {
            continue;
        }
        let without = reach_from(&succ, r, Some(d));
        for v in 0..sh.n {
            if reach[v] && (v == d || !without[v]) {
                dom[d][v] = true;
            }
        }
    }
    let fwd: Vec<(usize, usize)> =
        sh.edges.iter().cloned().filter(|&(t, h)| reach[t] && reach[h] && !dom[h][t]).collect();
    let red = !has_cycle(sh.n, &fwd, &reach, true);
    format!(
        "{}/{}/{}/{}/{}",
        prefix,
        rk,
        if all { "allreach" } else { "unreach" },
        cyc,
        if red { "red" } else { "irred" }
    )
}

fn distinct_ids(rng: &mut Rng, n: usize, bound: u64) -> Vec<usize> {
    let mut seen = BTreeSet::new();
    let mut out = Vec::new();
    while out.len() < n {
        let v = rng.below(bound) as usize;
        if seen.insert(v) {
            out.push(v);
        }
    }
    out
}

/// ids for n positions: contiguous 0..n, random distinct below 1000, or (1 in 20) some up to 2^40
fn make_ids(rng: &mut Rng, n: usize) -> Vec<usize> {
    if rng.chance(1, 20) {
        let mut ids = distinct_ids(rng, n, 1000);
        let k = rng.range(1, n as u64) as usize;
        for _ in 0..k {
            let i = rng.below(n as u64) as usize;
            let v = (1usize << 32) + rng.below((1u64 << 40) - (1u64 << 32)) as usize;
            if !ids.contains(&v) {
                ids[i] = v;
            }
        }
        ids
    } else if rng.chance(1, 2) {
        (0..n).collect()
    } else {
        distinct_ids(rng, n, 1000)
    }
}

fn request(sh: &Shape, ids: &[usize], root_id: usize) -> String {
    let v = if sh.n == 0 { "-".to_string() } else { csv(ids) };
    let e = if sh.edges.is_empty() {
        "-".to_string()
    } else {
        sh.edges.iter().map(|&(h, t)| format!("{}>{}", ids[h], ids[t])).collect::<Vec<_>>().join(",")
    };
    format!("q {} {} {}", v, e, root_id)
}

fn emit_query(em: &mut Emit, prefix: &str, sh: &Shape, ids: &[usize], root: usize) {
    em.case(&query_class(prefix, sh, Some(root)), request(sh, ids, ids[root]));
}

fn emit_noroot(rng: &mut Rng, em: &mut Emit, prefix: &str, sh: &Shape, ids: &[usize]) {
    let mut r = rng.below(1100) as usize;
    while ids.contains(&r) {
        r += 1;
    }
    em.case(&query_class(prefix, sh, None), request(sh, ids, r));
}

/// generator 1: one random graph and its queries; returns the number of queries emitted
fn gen_random_graph(rng: &mut Rng, em: &mut Emit) -> usize {
    let n = rng.range(1, 12) as usize;
    let p_num = *rng.pick(&[1u64, 2, 3, 5]); // edge probability p_num / 10
    // half of the graphs are "rooted": every position > 0 gets an edge from an earlier position, so
    // position 0 reaches everything; half of those have no edge into position 0
    let rooted = rng.chance(1, 2);
    let closed_root = rooted && rng.chance(1, 2);
    let mut mat = vec![vec![false; n]; n];
    for h in 0..n {
        for t in 0..n {
            if rng.chance(p_num, 10) && !(closed_root && t == 0) {
                mat[h][t] = true;
            }
        }
    }
    if rooted {
        for t in 1..n {
            let h = rng.below(t as u64) as usize;
            mat[h][t] = true;
        }
    }
    let mut total = n;
    let mut edges: Vec<(usize, usize)> = Vec::new();
    for h in 0..n {
        for t in 0..n {
            if mat[h][t] {
                edges.push((h, t));
            }
        }
    }
    if rng.chance(1, 2) {
        // extra vertices nothing in the main part points to; they may point into the main part and to each other
        let k = rng.range(1, 3) as usize;
        total = n + k;
        for x in n..total {
            for t in 0..total {
                let pr = if t < n { 3 } else { 2 };
                if rng.chance(pr, 10) {
                    edges.push((x, t));
                }
            }
        }
    }
    // the order of the edge list in the request is not significant: shuffle it now and then
    if rng.chance(1, 4) {
        for i in (1..edges.len()).rev() {
            let j = rng.below(i as u64 + 1) as usize;
            edges.swap(i, j);
        }
    }
    let sh = Shape { n: total, edges };
    let ids = make_ids(rng, total);
    let mut roots: Vec<usize> = if total <= 5 {
        (0..total).collect()
    } else {
        let mut rs = Vec::new();
        if rooted {
            rs.push(0);
        }
        while rs.len() < 3 {
            let r = rng.below(total as u64) as usize;
            if !rs.contains(&r) {
                rs.push(r);
            }
        }
        rs
    };
    roots.sort_unstable();
    let mut count = 0;
    for r in roots {
        if rng.chance(1, 30) {
            emit_noroot(rng, em, "q", &sh, &ids);
        } else {
            emit_query(em, "q", &sh, &ids, r);
        }
        count += 1;
    }
    count
}

/// generator 2: the structured graphs, every vertex tried as root, also with an unreachable vertex pointing in
fn structured_shapes() -> Vec<(Shape, usize)> {
    // (shape, a position inside the "interesting" part an extra unreachable vertex points to)
    let mut v: Vec<(Shape, usize)> = Vec::new();
    let mk = |n: usize, es: &[(usize, usize)]| Shape { n, edges: es.to_vec() };
    v.push((mk(1, &[]), 0));
    v.push((mk(1, &[(0, 0)]), 0));
    v.push((mk(2, &[(0, 1)]), 1));
    v.push((mk(4, &[(0, 1), (1, 2), (2, 3)]), 2)); // chain
    v.push((mk(6, &[(0, 1), (1, 2), (2, 3), (3, 4), (4, 5)]), 3)); // chain
    v.push((mk(4, &[(0, 1), (0, 2), (1, 3), (2, 3)]), 3)); // diamond
    v.push((mk(5, &[(0, 1), (0, 2), (1, 3), (2, 3), (3, 4)]), 3)); // diamond with a tail
    v.push((mk(5, &[(0, 1), (1, 2), (2, 3), (2, 1), (3, 4), (3, 0)]), 2)); // nested loops (falcon's test)
    v.push((mk(6, &[(0, 1), (1, 2), (2, 3), (3, 2), (3, 4), (4, 1), (4, 5)]), 3)); // nested loops below the root
    v.push((mk(4, &[(0, 1), (1, 1), (1, 2), (2, 0), (2, 3), (3, 3)]), 1)); // loop tree test of falcon
    v.push((mk(3, &[(0, 1), (0, 2), (1, 2), (2, 1)]), 1)); // irreducible triangle
    v.push((mk(5, &[(0, 1), (0, 2), (1, 2), (2, 1), (2, 3), (3, 4), (4, 3)]), 2)); // irreducible + reducible loop
    v.push((mk(5, &[(0, 1), (1, 2), (1, 0), (2, 3), (3, 4), (3, 2)]), 3)); // two disjoint loops
    v.push((mk(3, &[(0, 1), (0, 2), (1, 0), (2, 0)]), 1)); // loops sharing a header
    v.push((mk(4, &[(0, 1), (1, 2), (1, 3), (2, 1), (3, 1)]), 2)); // loops sharing a header below the root
    v.push((mk(3, &[(0, 1), (1, 2), (2, 0)]), 1)); // root inside a loop (a ring)
    v.push((mk(3, &[(0, 1), (0, 2), (1, 0), (1, 2)]), 1)); // start node in a loop (falcon's frontier test)
    v.push((mk(6, &[(0, 1), (1, 2), (1, 3), (1, 5), (2, 4), (3, 4), (4, 1)]), 4)); // falcon's main test graph
    v.push((mk(5, &[(0, 1), (0, 2), (1, 3), (2, 3), (2, 4), (3, 0), (3, 4)]), 3)); // falcon's idom test 2
    v.push((mk(7, &[(0, 1), (1, 4), (1, 2), (2, 3), (2, 6), (4, 2), (4, 5), (5, 6), (6, 3)]), 2)); // topo test
    v
}

fn gen_structured(rng: &mut Rng, em: &mut Emit) {
    for (sh, into) in structured_shapes() {
        for extra in 0..2 {
            let mut sh2 = sh.clone();
            if extra == 1 {
                sh2.edges.push((sh.n, into));
                sh2.n += 1;
            }
            // once with small contiguous ids (1-based as in falcon's tests), once with random ids
            let small: Vec<usize> = (1..=sh2.n).collect();
            let random = make_ids(rng, sh2.n);
            for ids in [small, random] {
                for r in 0..sh2.n {
                    emit_query(em, "q", &sh2, &ids, r);
                }
            }
        }
    }
}

/// generator 3: every directed graph (self-loops included) on 1, 2, 3 vertices with every root, and on 4
/// vertices with roots 0 and 3
fn gen_exhaustive(em: &mut Emit) {
    for n in 1..=4usize {
        let ids: Vec<usize> = (0..n).collect();
        let cells = n * n;
        for m in 0u32..(1u32 << cells) {
            let mut edges = Vec::new();
            for h in 0..n {
                for t in 0..n {
                    if m >> (h * n + t) & 1 == 1 {
                        edges.push((h, t));
                    }
                }
            }
            let sh = Shape { n, edges };
            let roots: Vec<usize> = if n < 4 { (0..n).collect() } else { vec![0, 3] };
            for r in roots {
                emit_query(em, "x", &sh, &ids, r);
            }
        }
    }
}

/// generator 4: one edit history over a small id pool
fn gen_history(rng: &mut Rng, em: &mut Emit) {
    let pool_n = rng.range(4, 8) as usize;
    let mut pool: Vec<usize> = Vec::new();
    while pool.len() < pool_n {
        let v = match rng.below(4) {
            0 => (1usize << 32) + rng.below(1 << 20) as usize,
            1 => rng.below(1000) as usize,
            _ => rng.below(10) as usize,
        };
        if !pool.contains(&v) {
            pool.push(v);
        }
    }
    let len = match rng.below(3) {
        0 => rng.range(1, 5),
        1 => rng.range(6, 15),
        _ => rng.range(16, 40),
    } as usize;
    // a shadow of the vertex / edge sets steers some operations towards existing things (so that removals and
    // duplicate insertions actually happen); the shadow is only a generator heuristic, never an oracle
    let mut vs: Vec<usize> = Vec::new();
    let mut es: Vec<(usize, usize)> = Vec::new();
    let mut ops: Vec<String> = Vec::new();
    // cumulative weights iv / ie / re / rv / ru: the plain mix, or (half of the histories) a mix that builds
    // larger graphs before something is removed
    let w: [u64; 4] = if rng.chance(1, 2) { [30, 65, 75, 90] } else { [25, 80, 88, 96] };
    for _ in 0..len {
        // while the graph is (nearly) empty most operations would only fail: insert vertices more often then
        let k = if vs.len() < 2 && rng.chance(2, 3) { 0 } else { rng.below(100) };
        let any = |rng: &mut Rng| *rng.pick(&pool);
        let existing = |rng: &mut Rng, vs: &Vec<usize>| if !vs.is_empty() && rng.chance(3, 4) { *rng.pick(vs) } else { *rng.pick(&pool) };
        if k < w[0] {
            let v = any(rng);
            if !vs.contains(&v) {
                vs.push(v);
            }
            ops.push(format!("iv {}", v));
        } else if k < w[1] {
            let (h, t) = (existing(rng, &vs), if rng.chance(1, 8) { usize::MAX } else { existing(rng, &vs) });
            let t = if t == usize::MAX { h } else { t };
            if vs.contains(&h) && vs.contains(&t) && !es.contains(&(h, t)) {
                es.push((h, t));
            }
            ops.push(format!("ie {} {}", h, t));
        } else if k < w[2] {
            let (h, t) = if !es.is_empty() && rng.chance(2, 3) { *rng.pick(&es) } else { (any(rng), any(rng)) };
            es.retain(|e| *e != (h, t));
            ops.push(format!("re {} {}", h, t));
        } else if k < w[3] {
            let v = existing(rng, &vs);
            vs.retain(|x| *x != v);
            es.retain(|e| e.0 != v && e.1 != v);
            ops.push(format!("rv {}", v));
        } else {
            let r = existing(rng, &vs);
            if vs.contains(&r) {
                let reach = own_reach(&vs, &es, r);
                vs.retain(|x| reach.contains(x));
                es.retain(|e| reach.contains(&e.0) && reach.contains(&e.1));
            }
            ops.push(format!("ru {}", r));
        }
    }
    let bucket = if len <= 5 { "1-5" } else if len <= 15 { "6-15" } else { "16-40" };
    em.case(&format!("h/{}", bucket), ops.join(" ; "));
}

fn generate(tier: Tier, rng: &mut Rng, em: &mut Emit) {
    // the check runs shards with seeds seed*1000+k: exactly one shard (k = 0) does the exhaustive part.
    // Rng does not keep the seed; recover "is this shard 0" from the environment-free rule below.
    let shard0 = std::env::args()
        .collect::<Vec<String>>()
        .windows(2)
        .find(|w| w[0] == "--seed")
        .and_then(|w| w[1].parse::<u64>().ok())
        .map(|s| s % 1000 == 0)
        .unwrap_or(false);
    let (n_queries, n_hist) = match tier {
        Tier::Quick => (2_500usize, 250usize),
        Tier::Thorough => (60_000, 5_000),
    };
    let mut r2 = rng.fork();
    gen_structured(&mut r2, em);
    let mut r1 = rng.fork();
    let mut q = 0;
    while q < n_queries {
        q += gen_random_graph(&mut r1, em);
    }
    let mut r4 = rng.fork();
    for _ in 0..n_hist {
        gen_history(&mut r4, em);
    }
    if tier == Tier::Thorough && shard0 {
        gen_exhaustive(em);
    }
}

fn main() {
    run_main(&generate, &answer);
}
