//! An independent reference machine for the instruction subsets the C06 mini-assemblers emit: it decodes the RAW
//! bytes itself (no capstone, no falcon) and executes them one instruction at a time, recording the address of every
//! instruction it executes.  It knows only the encodings listed below; at anything else it stops, and the trace up to
//! that point is still a valid expectation (a prefix).  This is the "machine code executed one instruction at a time"
//! side of property C06 for control flow: falcon's per-instruction lifting is NOT involved.
//!
//!   x86/amd64: b8+r imm32 · 01 /r (reg,reg) · inc (40+r | ff c0+r) · 83 f8+r ib (cmp) · 89/8b modrm 43|r<<3 disp8
//!              (mov [ebx+d8],r / mov r,[ebx+d8]) · nops 90, 66 90, 0f 1f 00, 0f 1f 40 00, 0f 1f 44 00 00 ·
//!              jcc rel8 (70+cc) / rel32 (0f 80+cc) except jp/jnp · jmp rel8/rel32 · ret
//!   MIPS32:    addiu addu lw sw (any base) · beq bne blez bgtz bltz bgez · j · jr · nop, with branch delay slots
use std::collections::HashMap;

pub struct Mem(pub HashMap<u64, u8>);

impl Mem {
    pub fn from_regions(regions: &[(u64, Vec<u8>)]) -> Mem {
        let mut m = HashMap::new();
        for (a, bytes) in regions {
            for (i, b) in bytes.iter().enumerate() {
                m.insert(a + i as u64, *b);
            }
        }
        Mem(m)
    }
    fn read(&self, a: u64, n: usize, little: bool) -> Option<u64> {
        let mut v = 0u64;
        for i in 0..n {
            let b = *self.0.get(&(a.wrapping_add(i as u64)))? as u64;
            if little {
                v |= b << (8 * i);
            } else {
                v = (v << 8) | b;
            }
        }
        Some(v)
    }
    fn write(&mut self, a: u64, n: usize, v: u64, little: bool) {
        for i in 0..n {
            let b = if little { (v >> (8 * i)) & 0xff } else { (v >> (8 * (n - 1 - i))) & 0xff };
            self.0.insert(a.wrapping_add(i as u64), b as u8);
        }
    }
}

fn fetch(code: &[u8], base: u64, pc: u64, n: usize) -> Option<&[u8]> {
    let off = pc.checked_sub(base)? as usize;
    code.get(off..off + n)
}

/// x86 / amd64 subset.  `regs`: eax ecx edx ebx esp ebp esi edi (low 32 bits matter; amd64 writes zero-extend).
pub fn x86_trace(code: &[u8], base: u64, entry: u64, regs_in: [u64; 8], flags_in: (bool, bool, bool, bool),
                 mem: &mut Mem, amd64: bool, steps: usize) -> Vec<u64> {
    let mut r = regs_in;
    let (mut cf, mut zf, mut sf, mut of) = flags_in;
    let mut pc = entry;
    let mut trace = Vec::new();
    let end = base + code.len() as u64;
    while trace.len() < steps && pc >= base && pc < end {
        let b0 = code[(pc - base) as usize];
        let rest = |n: usize| fetch(code, base, pc, n);
        let lo = |x: u64| x & 0xffff_ffff;
        let mut next = pc;
        let set_add = |a: u64, b: u64, cf: &mut bool, zf: &mut bool, sf: &mut bool, of: &mut bool, keep_cf: bool| -> u64 {
            let res = lo(a.wrapping_add(b));
            if !keep_cf {
                *cf = (lo(a) + lo(b)) >> 32 != 0;
            }
            *zf = res == 0;
            *sf = res >> 31 != 0;
            *of = ((lo(a) ^ res) & (lo(b) ^ res)) >> 31 != 0;
            res
        };
        match b0 {
            0xb8..=0xbf => {
                let Some(b) = rest(5) else { break };
                r[(b0 - 0xb8) as usize] = u32::from_le_bytes([b[1], b[2], b[3], b[4]]) as u64;
                next += 5;
            }
            0x01 => {
                let Some(b) = rest(2) else { break };
                if b[1] >> 6 != 3 {
                    break;
                }
                let (src, dst) = (((b[1] >> 3) & 7) as usize, (b[1] & 7) as usize);
                r[dst] = set_add(r[dst], r[src], &mut cf, &mut zf, &mut sf, &mut of, false);
                next += 2;
            }
            0x40..=0x47 if !amd64 => {
                let i = (b0 - 0x40) as usize;
                r[i] = set_add(r[i], 1, &mut cf, &mut zf, &mut sf, &mut of, true);
                next += 1;
            }
            0xff => {
                let Some(b) = rest(2) else { break };
                if b[1] & 0xf8 != 0xc0 {
                    break;
                }
                let i = (b[1] & 7) as usize;
                r[i] = set_add(r[i], 1, &mut cf, &mut zf, &mut sf, &mut of, true);
                next += 2;
            }
            0x83 => {
                let Some(b) = rest(3) else { break };
                if b[1] & 0xf8 != 0xf8 {
                    break;
                }
                let a = lo(r[(b[1] & 7) as usize]);
                let imm = lo(b[2] as i8 as i64 as u64);
                let res = lo(a.wrapping_sub(imm));
                cf = a < imm;
                zf = res == 0;
                sf = res >> 31 != 0;
                of = ((a ^ imm) & (a ^ res)) >> 31 != 0;
                next += 3;
            }
            0x89 | 0x8b => {
                let Some(b) = rest(3) else { break };
                if b[1] & 0xc7 != 0x43 {
                    break;
                }
                let reg = ((b[1] >> 3) & 7) as usize;
                let base_reg = if amd64 { r[3] } else { lo(r[3]) };
                let ea = base_reg.wrapping_add(b[2] as i8 as i64 as u64);
                let ea = if amd64 { ea } else { lo(ea) };
                if b0 == 0x89 {
                    mem.write(ea, 4, lo(r[reg]), true);
                } else {
                    let Some(v) = mem.read(ea, 4, true) else { break };
                    r[reg] = v;
                }
                next += 3;
            }
            0x90 => next += 1,
            0x66 => {
                if rest(2).map(|b| b[1]) != Some(0x90) {
                    break;
                }
                next += 2;
            }
            0x0f => {
                let Some(b) = rest(2) else { break };
                if b[1] == 0x1f {
                    let Some(m) = rest(3) else { break };
                    next += match m[2] {
                        0x00 => 3,
                        0x40 => 4,
                        0x44 => 5,
                        _ => break,
                    };
                } else if (0x80..=0x8f).contains(&b[1]) {
                    let Some(x) = rest(6) else { break };
                    let cc = b[1] & 0xf;
                    let Some(t) = cond(cc, cf, zf, sf, of) else { break };
                    let rel = i32::from_le_bytes([x[2], x[3], x[4], x[5]]) as i64;
                    next = pc + 6;
                    if t {
                        next = next.wrapping_add(rel as u64);
                    }
                } else {
                    break;
                }
            }
            0x70..=0x7f => {
                let Some(b) = rest(2) else { break };
                let Some(t) = cond(b0 & 0xf, cf, zf, sf, of) else { break };
                next = pc + 2;
                if t {
                    next = next.wrapping_add(b[1] as i8 as i64 as u64);
                }
            }
            0xeb => {
                let Some(b) = rest(2) else { break };
                next = (pc + 2).wrapping_add(b[1] as i8 as i64 as u64);
            }
            0xe9 => {
                let Some(b) = rest(5) else { break };
                next = (pc + 5).wrapping_add(i32::from_le_bytes([b[1], b[2], b[3], b[4]]) as i64 as u64);
            }
            0xc3 => {
                trace.push(pc);
                break; // the return address is outside the code
            }
            _ => break,
        }
        trace.push(pc);
        if !amd64 {
            next = lo(next);
        }
        pc = next;
    }
    trace
}

/// jcc condition; `None` for the parity conditions (PF is not tracked by this machine)
fn cond(cc: u8, cf: bool, zf: bool, sf: bool, of: bool) -> Option<bool> {
    Some(match cc {
        0x0 => of,
        0x1 => !of,
        0x2 => cf,
        0x3 => !cf,
        0x4 => zf,
        0x5 => !zf,
        0x6 => cf || zf,
        0x7 => !cf && !zf,
        0x8 => sf,
        0x9 => !sf,
        0xa | 0xb => return None,
        0xc => sf != of,
        0xd => sf == of,
        0xe => zf || sf != of,
        _ => !zf && sf == of,
    })
}

/// MIPS32 subset; `little`: instruction and data byte order
pub fn mips_trace(code: &[u8], base: u64, entry: u64, regs_in: [u32; 32], mem: &mut Mem, little: bool, steps: usize) -> Vec<u64> {
    let mut r = regs_in;
    r[0] = 0;
    let mut pc = entry as u32;
    let mut trace = Vec::new();
    let word = |pc: u32| -> Option<u32> {
        let b = fetch(code, base, pc as u64, 4)?;
        Some(if little { u32::from_le_bytes([b[0], b[1], b[2], b[3]]) } else { u32::from_be_bytes([b[0], b[1], b[2], b[3]]) })
    };
    // executes one non-branch instruction; false = unknown encoding
    fn plain(w: u32, r: &mut [u32; 32], mem: &mut Mem, little: bool) -> bool {
        let (op, rs, rt, rd) = (w >> 26, ((w >> 21) & 31) as usize, ((w >> 16) & 31) as usize, ((w >> 11) & 31) as usize);
        let simm = (w & 0xffff) as i16 as i32 as u32;
        match op {
            0 if w == 0 => {}
            0 if w & 0x7ff == 0x21 => r[rd] = r[rs].wrapping_add(r[rt]),
            0x09 => r[rt] = r[rs].wrapping_add(simm),
            0x23 => {
                let ea = r[rs].wrapping_add(simm);
                if ea % 4 != 0 {
                    return false;
                }
                match mem.read(ea as u64, 4, little) {
                    Some(v) => r[rt] = v as u32,
                    None => return false,
                }
            }
            0x2b => {
                let ea = r[rs].wrapping_add(simm);
                if ea % 4 != 0 {
                    return false;
                }
                mem.write(ea as u64, 4, r[rt] as u64, little);
            }
            _ => return false,
        }
        r[0] = 0;
        true
    }
    while trace.len() < steps {
        let Some(w) = word(pc) else { break };
        let (op, rs, rt) = (w >> 26, ((w >> 21) & 31) as usize, ((w >> 16) & 31) as usize);
        let simm = (w & 0xffff) as i16 as i32 as u32;
        let target = pc.wrapping_add(4).wrapping_add(simm << 2);
        let (a, b) = (r[rs] as i32, r[rt] as i32);
        // (taken target, or None if not a branch)
        let br: Option<Option<u32>> = match op {
            0x04 => Some(if a == b { Some(target) } else { None }),
            0x05 => Some(if a != b { Some(target) } else { None }),
            0x06 if rt == 0 => Some(if a <= 0 { Some(target) } else { None }),
            0x07 if rt == 0 => Some(if a > 0 { Some(target) } else { None }),
            0x01 if rt == 0 => Some(if a < 0 { Some(target) } else { None }),
            0x01 if rt == 1 => Some(if a >= 0 { Some(target) } else { None }),
            0x02 => Some(Some((pc.wrapping_add(4) & 0xf000_0000) | ((w & 0x03ff_ffff) << 2))),
            0x00 if w & 0x001f_ffff == 0x08 => {
                // jr rs: the delay slot runs, then control leaves the code
                trace.push(pc as u64);
                if let Some(s) = word(pc.wrapping_add(4)) {
                    if plain(s, &mut r, mem, little) && trace.len() < steps {
                        trace.push(pc as u64 + 4);
                    }
                }
                break;
            }
            _ => None,
        };
        match br {
            Some(t) => {
                let Some(s) = word(pc.wrapping_add(4)) else { break };
                trace.push(pc as u64);
                if trace.len() >= steps {
                    break;
                }
                if !plain(s, &mut r, mem, little) {
                    break;
                }
                trace.push(pc as u64 + 4);
                pc = t.unwrap_or(pc.wrapping_add(8));
            }
            None => {
                if !plain(w, &mut r, mem, little) {
                    break;
                }
                trace.push(pc as u64);
                pc = pc.wrapping_add(4);
            }
        }
    }
    trace
}
