//! C05 — lifting any bytes is total and yields well-formed, deterministic IL.
//! Request: `lift <arch> <hexbytes> <addr> <opt>`; answer: the BlockTranslationResult in FIL | err:… | panic.
use fvh::lift::{arch, btr_str, bytes_hex, hex_bytes, lift_block, options, ARCHS};
use fvh::{run_main, Emit, Rng, Tier};

fn answer(line: &str) -> String {
    let f: Vec<&str> = line.split(' ').collect();
    if f.len() != 5 || f[0] != "lift" {
        return "bad-request".to_string();
    }
    let (a, bytes, addr, opt) = match (
        arch(f[1]),
        hex_bytes(f[2]),
        u64::from_str_radix(f[3].trim_start_matches("0x"), 16).ok(),
        f[4] == "1",
    ) {
        (Some(a), Some(b), Some(ad), o) => (a, b, ad, o),
        _ => return "bad-request".to_string(),
    };
    match lift_block(a.as_ref(), &bytes, addr, &options(opt)) {
        Ok(r) => btr_str(&r),
        Err(e) => e,
    }
}

const ADDRS: [u64; 4] = [0, 0x1000, 0xffff_fff8, 0xffff_ffff_ffff_fff0];

fn class_of(arch: &str, bytes: &[u8], opt: bool) -> String {
    let o = if opt { 1 } else { 0 };
    if bytes.len() < 4 && !arch.contains("86") && arch != "amd64" {
        return format!("lift/{}/opt{}/short{}", arch, o, bytes.len());
    }
    match arch {
        "x86" | "amd64" => {
            // skip legacy prefixes (and REX on amd64) to name the opcode
            let mut i = 0;
            let mut pre = String::new();
            while i < bytes.len() {
                let b = bytes[i];
                let is_pre = matches!(b, 0x66 | 0x67 | 0xf2 | 0xf3 | 0x2e | 0x36 | 0x3e | 0x26 | 0x64 | 0x65 | 0xf0)
                    || (arch == "amd64" && (0x40..=0x4f).contains(&b));
                if !is_pre {
                    break;
                }
                if b == 0x66 || b == 0xf2 || b == 0xf3 {
                    pre = format!("{:02x}", b);
                }
                i += 1;
            }
            let op = if i < bytes.len() && bytes[i] == 0x0f && i + 1 < bytes.len() {
                format!("0f{:02x}", bytes[i + 1])
            } else if i < bytes.len() {
                format!("{:02x}", bytes[i])
            } else {
                "none".to_string()
            };
            format!("lift/{}/opt{}/p{}/op{}", arch, o, pre, op)
        }
        "mips" | "ppc" | "aarch64eb" => {
            // big-endian instruction fetch for mips/ppc; aarch64eb fetches little-endian
            let w = if arch == "aarch64eb" {
                u32::from_le_bytes([bytes[0], bytes[1], bytes[2], bytes[3]])
            } else {
                u32::from_be_bytes([bytes[0], bytes[1], bytes[2], bytes[3]])
            };
            word_class(arch, w, o)
        }
        _ => {
            let w = u32::from_le_bytes([bytes[0], bytes[1], bytes[2], bytes[3]]);
            word_class(arch, w, o)
        }
    }
}

fn word_class(arch: &str, w: u32, o: u32) -> String {
    if arch.starts_with("aarch64") {
        // op0 = bits 28..25, plus the top byte
        format!("lift/{}/opt{}/op0={:x}/top={:02x}", arch, o, (w >> 25) & 0xf, w >> 24)
    } else if arch.starts_with("mips") {
        let op = w >> 26;
        let sub = if op == 0 || op == 0x1c { w & 0x3f } else if op == 1 { (w >> 16) & 0x1f } else { 0 };
        format!("lift/{}/opt{}/op={:02x}/sub={:02x}", arch, o, op, sub)
    } else {
        let op = w >> 26;
        let sub = if op == 31 || op == 19 { (w >> 1) & 0x3ff } else { 0 };
        format!("lift/{}/opt{}/op={}/xo={}", arch, o, op, sub)
    }
}

fn emit(em: &mut Emit, arch: &str, bytes: &[u8], addr: u64, opt: bool) {
    em.case(&class_of(arch, bytes, opt), format!("lift {} {} 0x{:x} {}", arch, bytes_hex(bytes), addr, if opt { 1 } else { 0 }));
}

fn generate(tier: Tier, rng: &mut Rng, em: &mut Emit) {
    let scale: u64 = if tier == Tier::Quick { 1 } else { 3 }; // per shard; check runs 8 shards
    for arch in ARCHS.iter() {
        let fixed = !(*arch == "x86" || *arch == "amd64");
        if fixed {
            // structured sweep: every major opcode (top 6 bits) x function field, random remaining bits
            for op in 0u32..64 {
                for sub in 0u32..64 {
                    for _ in 0..scale {
                        let mut w = (op << 26) | (rng.next() as u32 & 0x03ff_ffc0) | sub;
                        if arch.starts_with("aarch64") {
                            w = (rng.next() as u32 & 0x00ff_ffff) | (op << 26) | ((sub & 3) << 24);
                        }
                        if *arch == "ppc" && (op == 31 || op == 19) {
                            w = (op << 26) | (rng.next() as u32 & 0x03ff_f800) | ((rng.next() as u32 & 0x3ff) << 1) | (sub & 1);
                        }
                        let b = if *arch == "mips" || *arch == "ppc" { w.to_be_bytes() } else { w.to_le_bytes() };
                        let addr = *rng.pick(&ADDRS);
                        emit(em, arch, &b, addr, rng.chance(1, 2));
                    }
                }
            }
            // uniform random words, 1..4 instructions, and truncated inputs
            for _ in 0..(6000 * scale) {
                let n = rng.range(1, 4) as usize;
                let mut bytes = Vec::new();
                for _ in 0..n {
                    bytes.extend_from_slice(&(rng.next() as u32).to_le_bytes());
                }
                if rng.chance(1, 20) {
                    let cut = rng.below(bytes.len() as u64) as usize;
                    bytes.truncate(cut);
                }
                emit(em, arch, &bytes, *rng.pick(&ADDRS), rng.chance(1, 2));
            }
        } else {
            let prefixes: [&[u8]; 8] = [&[], &[], &[0x66], &[0xf2], &[0xf3], &[0x48], &[0x66, 0x48], &[0x41]];
            // every 1-byte and 0f-two-byte opcode x prefixes x random tails
            for op in 0u32..512 {
                for p in prefixes.iter() {
                    for _ in 0..(2 * scale) {
                        let mut bytes: Vec<u8> = p.to_vec();
                        if op >= 256 {
                            bytes.push(0x0f);
                        }
                        bytes.push((op & 0xff) as u8);
                        let tail = rng.range(0, 12);
                        for _ in 0..tail {
                            bytes.push(rng.next() as u8);
                        }
                        if rng.chance(1, 2) && bytes.len() > p.len() + 1 {
                            // make the ModRM byte register-direct or a simple memory form more often
                            let i = p.len() + if op >= 256 { 2 } else { 1 };
                            if i < bytes.len() {
                                bytes[i] = if rng.chance(1, 2) { 0xc0 | (rng.next() as u8 & 0x3f) } else { rng.next() as u8 & 0x3f };
                            }
                        }
                        emit(em, arch, &bytes, *rng.pick(&ADDRS), rng.chance(1, 2));
                    }
                }
            }
            for _ in 0..(4000 * scale) {
                let n = rng.range(0, 16) as usize;
                let bytes: Vec<u8> = (0..n).map(|_| rng.next() as u8).collect();
                emit(em, arch, &bytes, *rng.pick(&ADDRS), rng.chance(1, 2));
            }
        }
    }
}

fn main() {
    run_main(&generate, &answer);
}
