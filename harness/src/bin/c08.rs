//! C08 — paged memory (`falcon::memory::paged::Memory<V>`): a history of new / clone / store / load /
//! set_permissions / permissions / == operations, one history per request line.
//! The line protocol is documented in lean/Drivers/C08.lean.
use falcon::architecture::Endian;
use falcon::il::{self, Constant};
use falcon::memory::paged::Memory;
use falcon::memory::{backing, MemoryPermissions, Value};
use falcon::{Error, RC};
use fvh::canon::{catch, const_str, err_str, parse_const};
use fvh::sx::parse_nat;
use fvh::{run_main, Emit, Rng, Tier};
use num_bigint::BigUint;
use num_traits::{One, ToPrimitive, Zero};

// ---------------------------------------------------------------- the interpreter (falcon's answer)

fn endian_of(s: &str) -> Option<Endian> {
    match s {
        "LE" => Some(Endian::Little),
        "BE" => Some(Endian::Big),
        _ => None,
    }
}

fn addr_of(s: &str) -> Option<u64> {
    parse_nat(s)?.to_u64()
}

fn dec_of(s: &str) -> Option<u64> {
    if s.is_empty() || !s.bytes().all(|b| b.is_ascii_digit()) {
        return None;
    }
    s.parse().ok()
}

fn hex_bytes(s: &str) -> Option<Vec<u8>> {
    let b = s.as_bytes();
    if b.len() % 2 != 0 {
        return None;
    }
    let mut out = Vec::with_capacity(b.len() / 2);
    for p in b.chunks(2) {
        let hi = (p[0] as char).to_digit(16)?;
        let lo = (p[1] as char).to_digit(16)?;
        out.push((hi * 16 + lo) as u8);
    }
    Some(out)
}

/// `<addr>:<perm>:<hexbytes>,…` or `-`
fn sections_of(s: &str) -> Option<Vec<(u64, u32, Vec<u8>)>> {
    if s == "-" {
        return Some(Vec::new());
    }
    let mut out = Vec::new();
    for sec in s.split(',') {
        let parts: Vec<&str> = sec.split(':').collect();
        if parts.len() != 3 {
            return None;
        }
        let a = addr_of(parts[0])?;
        let p = u32::try_from(dec_of(parts[1])?).ok()?;
        let d = hex_bytes(parts[2])?;
        out.push((a, p, d));
    }
    Some(out)
}

type Handles<V> = Vec<(String, Memory<V>)>;

fn find<V: Value>(hs: &Handles<V>, h: &str) -> Option<usize> {
    hs.iter().position(|x| x.0 == h)
}

fn put<V: Value>(hs: &mut Handles<V>, h: &str, m: Memory<V>) {
    match find(hs, h) {
        Some(i) => hs[i].1 = m,
        None => hs.push((h.to_string(), m)),
    }
}

fn step<V: Value>(
    hs: &mut Handles<V>,
    op: &str,
    inj: &dyn Fn(Constant) -> V,
    ext: &dyn Fn(&V) -> Result<Constant, Error>,
) -> String {
    let bad = "bad-request".to_string();
    let noh = "nohandle".to_string();
    let ok = "ok".to_string();
    let panic = "panic".to_string();
    let t: Vec<&str> = op.split(' ').collect();
    match t.as_slice() {
        ["new", h, e] => match endian_of(e) {
            Some(e) => match catch(|| Memory::<V>::new(e)) {
                Some(m) => {
                    put(hs, h, m);
                    ok
                }
                None => panic,
            },
            None => bad,
        },
        ["newb", h, e, be, secs] => match (endian_of(e), endian_of(be), sections_of(secs)) {
            (Some(e), Some(be), Some(secs)) => {
                let built = catch(|| {
                    let mut b = backing::Memory::new(be);
                    for (a, p, d) in secs {
                        b.set_memory(a, d, MemoryPermissions::from_bits_truncate(p));
                    }
                    Memory::<V>::new_with_backing(e, RC::new(b))
                });
                match built {
                    Some(m) => {
                        put(hs, h, m);
                        ok
                    }
                    None => panic,
                }
            }
            _ => bad,
        },
        ["clone", h, h2] => match find(hs, h) {
            Some(i) => match catch(|| hs[i].1.clone()) {
                Some(m) => {
                    put(hs, h2, m);
                    ok
                }
                None => panic,
            },
            None => noh,
        },
        ["store", h, a, c] => {
            let i = match find(hs, h) {
                Some(i) => i,
                None => return noh,
            };
            let (a, c) = match (addr_of(a), catch(|| parse_const(c)).flatten()) {
                (Some(a), Some(c)) => (a, c),
                _ => return bad,
            };
            let m = &mut hs[i].1;
            match catch(|| m.store(a, inj(c))) {
                None => panic,
                Some(Ok(())) => ok,
                Some(Err(e)) => err_str(&e).to_string(),
            }
        }
        ["load", h, a, n] => {
            let i = match find(hs, h) {
                Some(i) => i,
                None => return noh,
            };
            let (a, n) = match (addr_of(a), dec_of(n).and_then(|n| usize::try_from(n).ok())) {
                (Some(a), Some(n)) => (a, n),
                _ => return bad,
            };
            let m = &hs[i].1;
            match catch(|| m.load(a, n).and_then(|r| r.map(|v| ext(&v)).transpose())) {
                None => panic,
                Some(Ok(Some(c))) => const_str(&c),
                Some(Ok(None)) => "none".to_string(),
                Some(Err(e)) => err_str(&e).to_string(),
            }
        }
        ["perm", h, a, len, p] => {
            let i = match find(hs, h) {
                Some(i) => i,
                None => return noh,
            };
            let p32 = dec_of(p).and_then(|p| u32::try_from(p).ok());
            let (a, len, p) = match (addr_of(a), addr_of(len), p32) {
                (Some(a), Some(l), Some(p)) => (a, l, p),
                _ => return bad,
            };
            let m = &mut hs[i].1;
            match catch(|| m.set_permissions(a, len, MemoryPermissions::from_bits_truncate(p))) {
                None => panic,
                Some(()) => ok,
            }
        }
        ["getperm", h, a] => {
            let i = match find(hs, h) {
                Some(i) => i,
                None => return noh,
            };
            let a = match addr_of(a) {
                Some(a) => a,
                None => return bad,
            };
            let m = &hs[i].1;
            match catch(|| m.permissions(a)) {
                None => panic,
                Some(Some(p)) => format!("p{}", p.bits()),
                Some(None) => "none".to_string(),
            }
        }
        ["eq", h, h2] => match (find(hs, h), find(hs, h2)) {
            (Some(i), Some(j)) => match catch(|| hs[i].1 == hs[j].1) {
                None => panic,
                Some(true) => "true".to_string(),
                Some(false) => "false".to_string(),
            },
            _ => noh,
        },
        ["mode", _] => ok,
        _ => bad,
    }
}

fn run<V: Value>(
    ops: &[&str],
    inj: &dyn Fn(Constant) -> V,
    ext: &dyn Fn(&V) -> Result<Constant, Error>,
) -> String {
    let mut hs: Handles<V> = Vec::new();
    let mut out: Vec<String> = Vec::with_capacity(ops.len());
    for op in ops {
        out.push(step(&mut hs, op, inj, ext));
    }
    out.join(" ; ")
}

/// the constant of width `w` with 0xa5 in every byte (trimmed to `w` bits)
fn mask_a5(w: usize) -> Constant {
    let bytes = vec![0xa5u8; (w + 7) / 8];
    Constant::new_big(BigUint::from_bytes_le(&bytes), w)
}

/// mode E: the constant c becomes the tree `(c ^ k) ^ k`
fn expr_of_const(c: Constant) -> il::Expression {
    let w = c.bits();
    if w == 0 {
        return il::Expression::constant(c);
    }
    let k = mask_a5(w);
    let ck = Constant::new_big(c.value() ^ k.value(), w);
    match il::Expression::xor(il::Expression::constant(ck), il::Expression::constant(k)) {
        Ok(e) => e,
        Err(_) => il::Expression::constant(c),
    }
}

fn answer(line: &str) -> String {
    let ops: Vec<&str> = line.split(" ; ").collect();
    if ops.first() == Some(&"mode E") {
        run::<il::Expression>(&ops, &expr_of_const, &|e| falcon::executor::eval(e))
    } else {
        run::<Constant>(&ops, &|c| c, &|c| Ok(c.clone()))
    }
}

// ---------------------------------------------------------------- generator

const TOP: u128 = 1u128 << 64;

#[derive(Clone, Copy)]
struct Win {
    name: &'static str,
    lo: u64,
    hi: u64,
    hot_lo: u64,
    hot_hi: u64,
}

const WINS: [Win; 4] = [
    Win { name: "w1", lo: 0x3f0, hi: 0x40f, hot_lo: 0x3fa, hot_hi: 0x405 },
    Win { name: "w2", lo: 0x2ff4, hi: 0x300c, hot_lo: 0x2ffa, hot_hi: 0x3005 },
    Win {
        name: "w3",
        lo: 0xffff_ffff_ffff_ffd8,
        hi: 0xffff_ffff_ffff_ffff,
        hot_lo: 0xffff_ffff_ffff_fff4,
        hot_hi: 0xffff_ffff_ffff_ffff,
    },
    Win { name: "w4", lo: 0x0, hi: 0x18, hot_lo: 0x0, hot_hi: 0xb },
];

const WIDTHS_MAIN: [usize; 8] = [8, 16, 24, 32, 40, 48, 56, 64];
const WIDTHS_WIDE: [usize; 6] = [72, 80, 96, 128, 136, 256];
const WIDTHS_BAD: [usize; 5] = [0, 1, 7, 12, 33];
const PERM_LENS: [u64; 8] = [1, 2, 0x10, 0x3ff, 0x400, 0x401, 0x800, 0xc00];

fn pick_width(rng: &mut Rng) -> usize {
    let r = rng.below(100);
    if r < 3 {
        *rng.pick(&WIDTHS_BAD)
    } else if r < 15 {
        *rng.pick(&WIDTHS_WIDE)
    } else {
        *rng.pick(&WIDTHS_MAIN)
    }
}

fn rand_value(rng: &mut Rng, bits: usize) -> BigUint {
    if bits == 0 {
        return BigUint::zero();
    }
    let nbytes = (bits + 7) / 8;
    let mask = (BigUint::one() << bits) - BigUint::one();
    let r = rng.below(100);
    let v = if r < 8 {
        mask.clone()
    } else if r < 16 {
        BigUint::zero()
    } else if r < 26 {
        // 0x0102030405…
        let bytes: Vec<u8> = (1..=nbytes).map(|i| i as u8).collect();
        BigUint::from_bytes_be(&bytes)
    } else {
        let bytes: Vec<u8> = (0..nbytes).map(|_| rng.below(256) as u8).collect();
        BigUint::from_bytes_be(&bytes)
    };
    v & mask
}

fn win_addr(rng: &mut Rng, w: &Win) -> u64 {
    if rng.chance(1, 2) {
        rng.range(w.hot_lo, w.hot_hi)
    } else {
        rng.range(w.lo, w.hi)
    }
}

/// keep `addr + bits/8 <= 2^64`
fn clamp_addr(addr: u64, bits: usize) -> u64 {
    let bytes = (bits / 8) as u128;
    if addr as u128 + bytes > TOP {
        (TOP - bytes) as u64
    } else {
        addr
    }
}

/// an operation address for a `bits`-wide access: a range that would run past 2^64 ends exactly at 2^64
/// one time in four and is otherwise moved down a little (falcon's `store` panics when it ends at 2^64,
/// which would otherwise dominate the histories at the top of the address space)
fn access_addr(rng: &mut Rng, w: &Win, bits: usize) -> u64 {
    let a = win_addr(rng, w);
    let c = clamp_addr(a, bits);
    if c != a && !rng.chance(1, 4) {
        c - rng.range(1, 12)
    } else {
        c
    }
}

fn e_str(rng: &mut Rng) -> &'static str {
    if rng.chance(1, 2) {
        "LE"
    } else {
        "BE"
    }
}

/// a section string for the chosen windows: 1–3 sections of 1..24 bytes covering / partially covering /
/// missing the windows; ascending, disjoint, non-empty, every end address < 2^64
fn gen_sections(rng: &mut Rng, wins: &[Win]) -> String {
    let n = rng.range(1, 3) as usize;
    let mut per: Vec<usize> = vec![0; wins.len()];
    for _ in 0..n {
        per[rng.below(wins.len() as u64) as usize] += 1;
    }
    let mut order: Vec<usize> = (0..wins.len()).collect();
    order.sort_by_key(|&i| wins[i].lo);
    let mut secs: Vec<(u64, u32, Vec<u8>)> = Vec::new();
    for &wi in &order {
        let w = &wins[wi];
        if per[wi] == 0 {
            continue;
        }
        let r = rng.below(100);
        let mut cur: u128 = if r < 60 {
            let base = w.lo.saturating_sub(8);
            base as u128 + rng.below(17) as u128
        } else if r < 85 {
            rng.range(w.hot_lo, w.hot_hi) as u128
        } else if w.lo >= 0x60 {
            (w.lo - 0x60) as u128 + rng.below(8) as u128
        } else {
            w.hi as u128 + 0x20 + rng.below(8) as u128
        };
        for _ in 0..per[wi] {
            let mut len = rng.range(1, 24) as u128;
            // end address (addr + len) must stay <= 2^64 - 1
            if cur + 1 > TOP - 1 {
                break;
            }
            if cur + len > TOP - 1 {
                len = TOP - 1 - cur;
            }
            let data: Vec<u8> = (0..len).map(|_| rng.below(256) as u8).collect();
            secs.push((cur as u64, rng.below(8) as u32, data));
            cur += len + if rng.chance(1, 3) { 0 } else { rng.range(1, 6) as u128 };
        }
    }
    // ascending and disjoint by construction; drop anything that is not (defensive)
    let mut clean: Vec<(u64, u32, Vec<u8>)> = Vec::new();
    let mut end: u128 = 0;
    for s in secs {
        if (s.0 as u128) >= end && !s.2.is_empty() && s.0 as u128 + s.2.len() as u128 <= TOP - 1 {
            end = s.0 as u128 + s.2.len() as u128;
            clean.push(s);
        }
    }
    if clean.is_empty() {
        return "-".to_string();
    }
    clean
        .iter()
        .map(|(a, p, d)| {
            let hex: String = d.iter().map(|b| format!("{:02x}", b)).collect();
            format!("0x{:x}:{}:{}", a, p, hex)
        })
        .collect::<Vec<_>>()
        .join(",")
}

struct Hist {
    ops: Vec<String>,
    live: Vec<usize>,
    endians: [bool; 2], // LE seen, BE seen (created handles)
    backed: [bool; 2],  // backed seen, unbacked seen
    clones: bool,
    perms: bool,
    first_secs: Option<String>,
}

impl Hist {
    fn mark_live(&mut self, h: usize) {
        if !self.live.contains(&h) {
            self.live.push(h);
        }
    }
    fn create(&mut self, rng: &mut Rng, h: usize, wins: &[Win], backed: bool) {
        let e = e_str(rng);
        self.endians[if e == "LE" { 0 } else { 1 }] = true;
        if backed {
            let be = e_str(rng);
            let secs = match &self.first_secs {
                Some(s) if rng.chance(1, 2) => s.clone(),
                _ => gen_sections(rng, wins),
            };
            if self.first_secs.is_none() {
                self.first_secs = Some(secs.clone());
            }
            self.backed[0] = true;
            self.ops.push(format!("newb m{} {} {} {}", h, e, be, secs));
        } else {
            self.backed[1] = true;
            self.ops.push(format!("new m{} {}", h, e));
        }
        self.mark_live(h);
    }
    fn some_live(&self, rng: &mut Rng) -> usize {
        *rng.pick(&self.live)
    }
}

fn gen_history(rng: &mut Rng) -> (String, String) {
    let mode_e = rng.chance(15, 100);
    let wins: Vec<Win> = if rng.chance(80, 100) {
        vec![*rng.pick(&WINS)]
    } else {
        let a = rng.below(4) as usize;
        let mut b = rng.below(3) as usize;
        if b >= a {
            b += 1;
        }
        vec![WINS[a], WINS[b]]
    };
    let has_w3 = wins.iter().any(|w| w.name == "w3");
    let nhandles = rng.range(1, 4) as usize;
    let mut h = Hist {
        ops: Vec::new(),
        live: Vec::new(),
        endians: [false; 2],
        backed: [false; 2],
        clones: false,
        perms: false,
        first_secs: None,
    };
    if mode_e {
        h.ops.push("mode E".to_string());
    }
    let backed0 = rng.chance(1, 2);
    h.create(rng, 0, &wins, backed0);
    if rng.chance(10, 100) {
        // a second handle: identical section string (structurally equal backing), a different one, or unbacked
        let r = rng.below(3);
        let other = if nhandles > 1 { rng.range(1, nhandles as u64 - 1) as usize } else { 1 };
        match r {
            0 => h.create(rng, other, &wins, true),
            1 => {
                let keep = h.first_secs.take();
                h.create(rng, other, &wins, true);
                if keep.is_some() {
                    h.first_secs = keep;
                }
            }
            _ => h.create(rng, other, &wins, false),
        }
    }
    let r = rng.below(100);
    let nops = if r < 30 {
        rng.range(1, 6)
    } else if r < 70 {
        rng.range(7, 20)
    } else {
        rng.range(21, 60)
    };
    for _ in 0..nops {
        let w = *rng.pick(&wins);
        let r = rng.below(100);
        if r < 38 {
            let m = h.some_live(rng);
            let bits = pick_width(rng);
            let a = access_addr(rng, &w, bits);
            let v = rand_value(rng, bits);
            h.ops.push(format!("store m{} 0x{:x} 0x{:x}:{}", m, a, v, bits));
        } else if r < 72 {
            let m = h.some_live(rng);
            let bits = pick_width(rng);
            let a = access_addr(rng, &w, bits);
            h.ops.push(format!("load m{} 0x{:x} {}", m, a, bits));
        } else if r < 78 {
            let m = h.some_live(rng);
            let t = rng.below(4) as usize;
            h.ops.push(format!("clone m{} m{}", m, t));
            h.mark_live(t);
            h.clones = true;
        } else if r < 83 {
            let m = h.some_live(rng);
            let a = win_addr(rng, &w);
            let len = if rng.chance(3, 100) {
                0
            } else {
                let ok: Vec<u64> =
                    PERM_LENS.iter().cloned().filter(|l| a as u128 + *l as u128 <= TOP).collect();
                if ok.is_empty() {
                    1
                } else {
                    *rng.pick(&ok)
                }
            };
            h.ops.push(format!("perm m{} 0x{:x} 0x{:x} {}", m, a, len, rng.below(8)));
            h.perms = true;
        } else if r < 91 {
            let m = h.some_live(rng);
            let a = win_addr(rng, &w);
            let d = rng.below(0x801);
            let a = if rng.chance(1, 2) { a.saturating_add(d) } else { a.saturating_sub(d) };
            let a = if rng.chance(1, 3) { win_addr(rng, &w) } else { a };
            h.ops.push(format!("getperm m{} 0x{:x}", m, a));
        } else if r < 97 {
            let a = h.some_live(rng);
            let b = h.some_live(rng);
            h.ops.push(format!("eq m{} m{}", a, b));
        } else {
            let t = rng.below(nhandles.max(2) as u64) as usize;
            let backed = rng.chance(1, 2);
            h.create(rng, t, &wins, backed);
        }
    }
    // the sweep
    let nsweep = if h.live.len() > 1 && rng.chance(1, 2) { 2 } else { 1 };
    let mut swept: Vec<usize> = Vec::new();
    for _ in 0..nsweep {
        let m = h.some_live(rng);
        if swept.contains(&m) {
            continue;
        }
        swept.push(m);
        let w = *rng.pick(&wins);
        let start = w.hot_lo as u128 + rng.below(5) as u128;
        for i in 0..8u128 {
            let a = start + i;
            if a < TOP {
                h.ops.push(format!("load m{} 0x{:x} 8", m, a));
            }
        }
        let bits = *rng.pick(&[32usize, 64, 128]);
        let a = clamp_addr((w.hot_lo as u128 + rng.below(8) as u128).min(TOP - 1) as u64, bits);
        h.ops.push(format!("load m{} 0x{:x} {}", m, a, bits));
    }
    // a range running past 2^64: only as the very last operation
    if has_w3 && rng.chance(2, 100) {
        let m = h.some_live(rng);
        let bits = *rng.pick(&[16usize, 32, 64, 128]);
        let bytes = (bits / 8) as u128;
        let a = (TOP - bytes + 1 + rng.below(bytes as u64 - 1) as u128) as u64;
        if rng.chance(1, 2) {
            let v = rand_value(rng, bits);
            h.ops.push(format!("store m{} 0x{:x} 0x{:x}:{}", m, a, v, bits));
        } else {
            h.ops.push(format!("load m{} 0x{:x} {}", m, a, bits));
        }
    }
    let class = format!(
        "{}/{}/{}/{}/{}/{}",
        if mode_e { "E" } else { "C" },
        match h.endians {
            [true, false] => "LE",
            [false, true] => "BE",
            _ => "mixed",
        },
        match h.backed {
            [true, false] => "backed",
            [false, true] => "unbacked",
            _ => "mixed",
        },
        if h.clones { "clone" } else { "noclone" },
        if h.perms { "perm" } else { "noperm" },
        if wins.len() > 1 { "multi" } else { wins[0].name },
    );
    (class, h.ops.join(" ; "))
}

// ---------------------------------------------------------------- the exhaustive small-scope family

const SMALL_LO: u64 = 0x3fc;
const SMALL_VALUES: [[&str; 3]; 3] = [
    ["0x11:8", "0x2233:16", "0x44556677:32"],
    ["0x88:8", "0x99aa:16", "0xbbccddee:32"],
    ["0x12:8", "0x3456:16", "0x789abcde:32"],
];

fn small_tail() -> String {
    let mut ops: Vec<String> = Vec::new();
    for a in SMALL_LO..SMALL_LO + 8 {
        ops.push(format!("load m0 0x{:x} 8", a));
    }
    for a in SMALL_LO..SMALL_LO + 8 {
        ops.push(format!("load m0 0x{:x} 16", a));
    }
    // 32-bit loads wherever they fit in 0x3fa..0x406
    for a in 0x3fau64..=0x402 {
        ops.push(format!("load m0 0x{:x} 32", a));
    }
    ops.join(" ; ")
}

fn small_family(tier: Tier, rng: &mut Rng, emit: &mut Emit) {
    let max_stores = if tier == Tier::Quick { 2 } else { 3 };
    let cap: u64 = 60_000;
    // 24 choices per store: 8 addresses x 3 widths
    let choices: u64 = 24;
    let mut total: u64 = 0;
    for k in 0..=max_stores {
        total += choices.pow(k as u32);
    }
    total *= 4;
    let tail = small_tail();
    for backed in [false, true] {
        for e in ["LE", "BE"] {
            let head = if backed {
                format!("newb m0 {} {} 0x3fd:7:f1f2f3f4f5f6", e, e)
            } else {
                format!("new m0 {}", e)
            };
            let class = format!("{}/{}", if backed { "small-backed" } else { "small" }, e);
            for k in 0..=max_stores {
                let n = choices.pow(k as u32);
                for idx in 0..n {
                    if total > cap && !rng.chance(cap, total) {
                        continue;
                    }
                    let mut ops: Vec<String> = vec![head.clone()];
                    let mut x = idx;
                    for s in 0..k {
                        let c = x % choices;
                        x /= choices;
                        let a = SMALL_LO + c / 3;
                        let wi = (c % 3) as usize;
                        ops.push(format!("store m0 0x{:x} {}", a, SMALL_VALUES[s][wi]));
                    }
                    ops.push(tail.clone());
                    emit.case(&class, ops.join(" ; "));
                }
            }
        }
    }
}

fn generate(tier: Tier, rng: &mut Rng, emit: &mut Emit) {
    // The exhaustive <=3-stores family is deterministic: only the first shard of a thorough run
    // (seed = VERIF_SEED * 1000, see `check`) emits it, the other shards emit the <=2-stores family.
    let first_shard = (1..=4096u64).any(|b| Rng::new(b * 1000).0 == rng.0);
    let small_tier = if tier == Tier::Thorough && !first_shard { Tier::Quick } else { tier };
    small_family(small_tier, rng, emit);
    let n = match tier {
        Tier::Quick => 20_000,
        Tier::Thorough => 120_000,
    };
    for _ in 0..n {
        let (class, req) = gen_history(rng);
        emit.case(&class, req);
    }
}

fn main() {
    run_main(&generate, &answer)
}
