//! C01 — the x86/amd64 lifter agrees with the processor on every instruction and state.
//!
//! Request:  `ins <x86|amd64> <hexbytes> <0xaddr> | <state>`           (state: see harness/src/lift.rs)
//! Answer:   `<BTR in FIL | err:… | panic@…> | <falcon post | -> | <operand description | -> | <silicon post | ->`
//!   falcon post  = the lifted block run by falcon's own executor from the state (`exec_btr`)
//!   description  = the normalised operand description derived from capstone's detail (c01/desc.rs), read by the
//!                  Lean specification `FalconModel/Isa/X86.lean`
//!   silicon post = the same bytes executed on the host CPU from the same state by the native single-stepper
//!                  (c01/native.rs; amd64 only), flags the SDM leaves undefined printed as `?`, a fault as `next=trap`
#[path = "c01/desc.rs"]
mod desc;
#[path = "c01/gen.rs"]
mod gen;
#[path = "c01/native.rs"]
mod native;

use desc::{reg_info, Decoder, Desc, Opnd};
use fvh::lift::{arch, btr_str, bytes_hex, exec_btr, hex_bytes, lift_block, options, MachState};
use fvh::{run_main, Emit, Rng, Tier};
use std::cell::RefCell;

const DATA: u64 = native::DATA_BASE;
const DATA_END: u64 = native::DATA_BASE + native::DATA_SIZE as u64;
const CODE_ADDR: u64 = native::CODE_BASE + 0x800;

const GPR64: [&str; 16] = ["rax", "rcx", "rdx", "rbx", "rsp", "rbp", "rsi", "rdi", "r8", "r9", "r10", "r11", "r12", "r13", "r14", "r15"];
const GPR32: [&str; 8] = ["eax", "ecx", "edx", "ebx", "esp", "ebp", "esi", "edi"];
const FLAGS: [&str; 6] = ["CF", "PF", "ZF", "SF", "OF", "DF"];
/// bit positions in RFLAGS of CF PF ZF SF OF DF
const FLAG_BIT: [u32; 6] = [0, 2, 6, 7, 11, 10];
const SEGS: [&str; 6] = ["cs", "ds", "es", "ss", "fs", "gs"];

thread_local! {
    static STEPPER: RefCell<Option<native::Stepper>> = RefCell::new(None);
    static DEC64: Decoder = Decoder::new(true);
    static DEC32: Decoder = Decoder::new(false);
}

/// mnemonics the native stepper refuses to execute (the deny-list of DESIGN §6 C01) — everything else that
/// capstone decodes and falcon may lift is run
fn denied(d: &Desc) -> bool {
    const DENY: [&str; 40] = [
        "syscall", "sysenter", "sysexit", "sysret", "int", "int1", "int3", "into", "iret", "iretd", "iretq", "hlt", "cli", "sti", "in", "out",
        "insb", "insw", "insd", "outsb", "outsw", "outsd", "lds", "les", "lfs", "lgs", "lss", "lcall", "ljmp", "retf", "retfq", "popf", "popfq",
        "popfd", "wrmsr", "rdmsr", "swapgs", "wrfsbase", "wrgsbase", "xsave",
    ];
    if DENY.contains(&d.mnemonic.as_str()) {
        return true;
    }
    for op in &d.ops {
        match op {
            // segment, control and debug registers; anything that is not a general or xmm register
            Opnd::Reg(r) => {
                if reg_info(r).is_none() {
                    return true;
                }
            }
            Opnd::Mem { seg: Some(s), .. } => {
                if s == "fs" || s == "gs" {
                    return true; // the host's fs base is the harness's TLS
                }
            }
            _ => {}
        }
    }
    false
}

/// Flags (and registers) the SDM leaves undefined after this instruction, given the pre-state (shift counts).
fn undefined_after(d: &Desc, get: &dyn Fn(&str) -> u64) -> Vec<&'static str> {
    let opbits = |k: usize| -> u64 {
        match d.ops.get(k) {
            Some(Opnd::Reg(r)) => reg_info(r).map(|x| x.1 as u64).unwrap_or(0),
            Some(Opnd::Mem { size, .. }) => *size as u64 * 8,
            Some(Opnd::Imm(_, s)) => *s as u64 * 8,
            None => 0,
        }
    };
    let val = |k: usize| -> u64 {
        match d.ops.get(k) {
            Some(Opnd::Reg(r)) => get(r),
            Some(Opnd::Imm(v, _)) => *v,
            _ => 0,
        }
    };
    match d.mnemonic.as_str() {
        "mul" | "imul" => vec!["SF", "ZF"],
        "div" | "idiv" => vec!["CF", "OF", "SF", "ZF"],
        "shl" | "sal" | "shr" | "sar" => {
            let w = opbits(0);
            let cnt = (if d.ops.len() < 2 { 1 } else { val(1) }) & if w == 64 { 63 } else { 31 };
            let mut u = Vec::new();
            if cnt == 0 {
                return u;
            }
            if cnt != 1 {
                u.push("OF");
            }
            if cnt >= w && d.mnemonic != "sar" {
                u.push("CF");
            }
            u
        }
        "rol" | "ror" | "rcl" | "rcr" => {
            let w = opbits(0);
            let cnt = (if d.ops.len() < 2 { 1 } else { val(1) }) & if w == 64 { 63 } else { 31 };
            if cnt > 1 {
                vec!["OF"]
            } else {
                vec![]
            }
        }
        "shld" | "shrd" => {
            let w = opbits(0);
            let cnt = val(2) & if w == 64 { 63 } else { 31 };
            if cnt == 0 {
                vec![]
            } else if cnt > w {
                vec!["CF", "OF", "SF", "ZF", "dst0"]
            } else if cnt != 1 {
                vec!["OF"]
            } else {
                vec![]
            }
        }
        "bt" | "bts" | "btr" | "btc" => vec!["OF", "SF"],
        "bsf" | "bsr" => vec!["CF", "OF", "SF", "dst0-if-src-zero"],
        "bswap" => {
            if opbits(0) == 16 {
                vec!["dst0"]
            } else {
                vec![]
            }
        }
        _ => vec![],
    }
}

// ------------------------------------------------------------------------------------------------ machine state

#[derive(Clone, Debug)]
struct St {
    amd64: bool,
    gpr: [u64; 16],
    flags: [bool; 6],
    xmm: [u128; 16],
    with_xmm: bool,
    /// cs ds es ss fs gs bases
    seg: [u64; 6],
    with_seg: bool,
    mem: Vec<(u64, Vec<u8>)>,
}

impl St {
    fn get(&self, name: &str, next_ip: u64) -> u64 {
        if name == "rip" || name == "eip" {
            return next_ip;
        }
        if let Some(i) = SEGS.iter().position(|s| *s == name) {
            return self.seg[i];
        }
        match reg_info(name) {
            Some((i, bits, off)) if bits <= 64 => {
                let v = self.gpr[i] >> off;
                if bits == 64 {
                    v
                } else {
                    v & ((1u64 << bits) - 1)
                }
            }
            _ => 0,
        }
    }

    fn set(&mut self, name: &str, v: u64) {
        if let Some((i, bits, off)) = reg_info(name) {
            if bits == 64 {
                self.gpr[i] = v;
            } else if bits < 64 {
                let m = ((1u64 << bits) - 1) << off;
                self.gpr[i] = (self.gpr[i] & !m) | ((v << off) & m);
            }
        }
    }

    fn mach(&self) -> MachState {
        let mut regs = Vec::new();
        let c = |v: u64, bits: usize| falcon::il::Constant::new(v, bits);
        if self.amd64 {
            for i in 0..16 {
                regs.push((GPR64[i].to_string(), c(self.gpr[i], 64)));
            }
        } else {
            for i in 0..8 {
                regs.push((GPR32[i].to_string(), c(self.gpr[i] & 0xffff_ffff, 32)));
            }
        }
        for i in 0..6 {
            regs.push((FLAGS[i].to_string(), c(self.flags[i] as u64, 1)));
        }
        if self.with_xmm {
            for i in 0..16 {
                let v = num_bigint::BigUint::from(self.xmm[i]);
                regs.push((format!("xmm{}", i), falcon::il::Constant::new_big(v, 128)));
            }
        }
        if self.with_seg {
            let bits = if self.amd64 { 64 } else { 32 };
            for i in 0..6 {
                regs.push((format!("{}_base", SEGS[i]), c(self.seg[i], bits)));
            }
        }
        MachState { endian: falcon::architecture::Endian::Little, regs, mem: self.mem.clone() }
    }

    fn from_mach(m: &MachState, amd64: bool) -> Option<St> {
        let mut st = St { amd64, gpr: [0; 16], flags: [false; 6], xmm: [0; 16], with_xmm: false, seg: [0; 6], with_seg: false, mem: m.mem.clone() };
        for (k, v) in &m.regs {
            let big = v.value().clone();
            let lo: u64 = (&big & num_bigint::BigUint::from(u64::MAX)).try_into().ok()?;
            if let Some(i) = GPR64.iter().position(|n| n == k) {
                st.gpr[i] = lo;
            } else if let Some(i) = GPR32.iter().position(|n| n == k) {
                st.gpr[i] = lo;
            } else if let Some(i) = FLAGS.iter().position(|n| n == k) {
                st.flags[i] = lo != 0;
            } else if let Some(n) = k.strip_prefix("xmm") {
                let i: usize = n.parse().ok()?;
                if i < 16 {
                    st.xmm[i] = big.try_into().ok()?;
                    st.with_xmm = true;
                }
            } else if let Some(s) = k.strip_suffix("_base") {
                let i = SEGS.iter().position(|n| *n == s)?;
                st.seg[i] = lo;
                st.with_seg = true;
            }
        }
        Some(st)
    }

    fn watch(&self) -> Vec<String> {
        let mut w: Vec<String> = if self.amd64 { GPR64.iter().map(|s| s.to_string()).collect() } else { GPR32.iter().map(|s| s.to_string()).collect() };
        for f in ["CF", "ZF", "SF", "OF", "DF"] {
            w.push(f.to_string());
        }
        if self.with_xmm {
            for i in 0..16 {
                w.push(format!("xmm{}", i));
            }
        }
        w
    }

    fn read_mem(&self, a: u64, n: usize) -> Option<u128> {
        let mut v: u128 = 0;
        for i in 0..n {
            let x = a.wrapping_add(i as u64);
            let b = self.mem.iter().find(|(s, bs)| x >= *s && x < *s + bs.len() as u64).map(|(s, bs)| bs[(x - *s) as usize])?;
            v |= (b as u128) << (8 * i);
        }
        Some(v)
    }

    fn write_mem(&mut self, a: u64, n: usize, v: u128) {
        for i in 0..n {
            let x = a.wrapping_add(i as u64);
            for (s, bs) in self.mem.iter_mut() {
                if x >= *s && x < *s + bs.len() as u64 {
                    bs[(x - *s) as usize] = (v >> (8 * i)) as u8;
                }
            }
        }
    }
}

/// effective address of a memory operand by the architecture's formula (generator knowledge, not falcon's)
fn effective_address(st: &St, d: &Desc, op: &Opnd, next_ip: u64) -> u64 {
    if let Opnd::Mem { seg, base, index, scale, disp, .. } = op {
        let b = base.as_ref().map(|r| st.get(r, next_ip)).unwrap_or(0);
        let i = index.as_ref().map(|r| st.get(r, next_ip)).unwrap_or(0);
        let mut ea = b.wrapping_add(i.wrapping_mul(*scale as i64 as u64)).wrapping_add(*disp as u64);
        ea = match d.addr_size {
            2 => ea & 0xffff,
            4 => ea & 0xffff_ffff,
            _ => ea,
        };
        let sb = match seg.as_deref() {
            Some("fs") => st.seg[4],
            Some("gs") => st.seg[5],
            Some(s) if !st.amd64 => SEGS.iter().position(|n| *n == s).map(|k| st.seg[k]).unwrap_or(0),
            _ => 0,
        };
        ea = ea.wrapping_add(sb);
        if !st.amd64 {
            ea &= 0xffff_ffff;
        }
        ea
    } else {
        0
    }
}

fn boundary(rng: &mut Rng) -> u64 {
    const POOL: [u64; 20] = [
        0, 1, 2, 0x7f, 0x80, 0xff, 0x100, 0x7fff, 0x8000, 0xffff, 0x7fff_ffff, 0x8000_0000, 0xffff_ffff, 0x1_0000_0000,
        0x7fff_ffff_ffff_ffff, 0x8000_0000_0000_0000, 0xffff_ffff_ffff_ffff, 0xffff_ffff_0000_0000, 0x0123_4567_89ab_cdef, 0xfedc_ba98_7654_3210,
    ];
    match rng.below(5) {
        0 | 1 => *rng.pick(&POOL),
        2 => (*rng.pick(&POOL)).wrapping_add(rng.below(3)).wrapping_sub(1),
        _ => rng.next(),
    }
}

const STRING_OPS: [&str; 20] = ["movsb", "movsw", "movsd", "movsq", "cmpsb", "cmpsw", "cmpsd", "cmpsq", "stosb", "stosw", "stosd", "stosq", "lodsb", "lodsw", "lodsd", "lodsq", "scasb", "scasw", "scasd", "scasq"];

/// builds a state for the decoded instruction: random/boundary registers, address registers steered into the scratch region,
/// memory windows around every address the instruction can touch
fn make_state(d: &Desc, amd64: bool, addr: u64, rng: &mut Rng) -> St {
    let next_ip = addr.wrapping_add(d.len as u64);
    let mut st = St { amd64, gpr: [0; 16], flags: [false; 6], xmm: [0; 16], with_xmm: false, seg: [0; 6], with_seg: false, mem: Vec::new() };
    for i in 0..16 {
        st.gpr[i] = boundary(rng);
        st.xmm[i] = match rng.below(4) {
            0 => 0,
            1 => u128::MAX,
            _ => ((rng.next() as u128) << 64) | rng.next() as u128,
        };
    }
    if !amd64 {
        for i in 0..16 {
            st.gpr[i] &= 0xffff_ffff;
        }
    }
    for i in 0..6 {
        st.flags[i] = rng.chance(1, 2);
    }
    let m = d.mnemonic.as_str();
    let is_string = STRING_OPS.contains(&m) && !d.ops.iter().any(|o| matches!(o, Opnd::Reg(r) if r.starts_with("xmm")));
    st.with_xmm = amd64 && d.ops.iter().any(|o| matches!(o, Opnd::Reg(r) if r.starts_with("xmm")));
    // shift / rotate counts in cl
    if ["shl", "sal", "shr", "sar", "rol", "ror", "shld", "shrd"].contains(&m) {
        const C: [u64; 18] = [0, 1, 2, 7, 8, 9, 15, 16, 17, 31, 32, 33, 63, 64, 65, 127, 128, 255];
        let c = if rng.chance(3, 4) { *rng.pick(&C) } else { rng.below(256) };
        st.gpr[1] = (st.gpr[1] & !0xff) | c;
    }
    if d.rep || d.repne || ["loop", "loope", "loopne", "jcxz", "jecxz", "jrcxz"].contains(&m) {
        st.gpr[1] = if d.rep || d.repne { rng.below(5) } else { *rng.pick(&[0u64, 1, 2, 0x1_0000, 0x1_0001, 0x1_0000_0000, 0x1_0000_0001, 0x1_0000_0002, 0xffff_ffff_0000_0001,
                0x8000_0000_0000_0000, 0xffff_ffff_ffff_ffff]) };
        // (count registers one above a power of the narrower widths: the decremented value is zero in its low 16 or 32
        // bits only, so a guard that tests the wrong width is exposed)
        if !amd64 {
            st.gpr[1] &= 0xffff_ffff;
        }
    }
    if ["jmp", "call"].contains(&m) {
        // register targets should be canonical addresses most of the time
        for i in 0..16 {
            if rng.chance(3, 4) {
                st.gpr[i] &= if amd64 { 0x7fff_ffff_ffff } else { 0xffff_ffff };
            }
        }
    }
    if ["bt", "bts", "btr", "btc"].contains(&m) && matches!(d.ops.first(), Some(Opnd::Mem { .. })) {
        if let Some(Opnd::Reg(r)) = d.ops.get(1) {
            if rng.chance(9, 10) {
                let v = (rng.below(141) as i64 - 70) as u64;
                let r = r.clone();
                st.set(&r, v);
            }
        }
    }
    // segment bases: flat model for cs/ds/es/ss; fs/gs arbitrary
    for op in &d.ops {
        if let Opnd::Mem { seg: Some(s), .. } = op {
            st.with_seg = true;
            if s == "fs" || s == "gs" {
                let k = if s == "fs" { 4 } else { 5 };
                st.seg[k] = *rng.pick(&[0u64, 0x10, 0x1000, 0x7000]);
            }
        }
    }
    // the stack pointer (and frame pointer for leave) live in the upper half of the scratch region
    let misalign = if rng.chance(1, 6) { rng.below(8) } else { 0 };
    st.gpr[4] = DATA + 0x10000 + 8 * rng.below(32) + misalign;
    if m == "leave" || m == "enter" {
        st.gpr[5] = DATA + 0x11000 + 8 * rng.below(32) + misalign;
    }
    if is_string {
        let page_edge = rng.chance(1, 8);
        st.gpr[6] = DATA + 0x4000 + rng.below(64) + if page_edge { 0xffd } else { 0 };
        st.gpr[7] = DATA + 0x6000 + rng.below(64) + if page_edge { 0xffb } else { 0 };
    }
    // steer the memory operands
    let mut windows: Vec<(u64, u64)> = Vec::new();
    let mut slot = 0u64;
    for op in d.ops.clone().iter() {
        if let Opnd::Mem { size, seg: _, base, index, scale, disp, .. } = op {
            if m == "lea" || m == "nop" || m.starts_with("prefetch") {
                continue;
            }
            let target = if rng.chance(1, 10) { DATA + 0x2000 + 0x1000 * slot - rng.below(8) } else { DATA + 0x1000 + 0x2000 * slot + rng.below(0x40) };
            slot += 1;
            let is_ip = |r: &Option<String>| matches!(r.as_deref(), Some("rip") | Some("eip"));
            let mask = match d.addr_size {
                2 => 0xffffu64,
                4 => 0xffff_ffff,
                _ => u64::MAX,
            };
            let cur = effective_address(&st, d, op, next_ip);
            let in_data = |a: u64| a >= DATA + 0x100 && a < DATA_END - 0x100;
            if !in_data(cur) && !(is_string) {
                let segb = cur.wrapping_sub({
                    // effective address without the segment base
                    let b = base.as_ref().map(|r| st.get(r, next_ip)).unwrap_or(0);
                    let i = index.as_ref().map(|r| st.get(r, next_ip)).unwrap_or(0);
                    b.wrapping_add(i.wrapping_mul(*scale as i64 as u64)).wrapping_add(*disp as u64) & mask
                });
                let want = target.wrapping_sub(segb) & mask;
                match (base, index) {
                    (Some(b), _) if !is_ip(base) => {
                        if index.as_ref() == Some(b) {
                            let v = (want.wrapping_sub(*disp as u64) & mask) / (1 + *scale as u64);
                            st.set(b, v);
                        } else {
                            if let Some(ix) = index {
                                if rng.chance(2, 3) {
                                    let v = rng.below(9);
                                    st.set(ix, if rng.chance(1, 4) { v.wrapping_neg() } else { v });
                                }
                            }
                            let i = index.as_ref().map(|r| st.get(r, next_ip)).unwrap_or(0);
                            let v = want.wrapping_sub(i.wrapping_mul(*scale as i64 as u64)).wrapping_sub(*disp as u64) & mask;
                            st.set(b, v);
                        }
                    }
                    (None, Some(ix)) => {
                        let v = (want.wrapping_sub(*disp as u64) & mask) / (*scale as u64).max(1);
                        st.set(ix, v);
                    }
                    _ => {}
                }
            }
            let ea = effective_address(&st, d, op, next_ip);
            let sz = (*size as u64).max(1);
            windows.push((ea.wrapping_sub(24), 48 + sz));
        }
    }
    if !amd64 {
        for i in 0..16 {
            st.gpr[i] &= 0xffff_ffff;
        }
    }
    let sp = st.gpr[4];
    windows.push((sp.wrapping_sub(32), 80));
    if m == "leave" {
        windows.push((st.gpr[5].wrapping_sub(16), 48));
    }
    if is_string {
        let span = 16 * (st.gpr[1].min(8) + 2);
        windows.push((st.gpr[6].wrapping_sub(span), 2 * span + 8));
        windows.push((st.gpr[7].wrapping_sub(span), 2 * span + 8));
    }
    // merge the windows, drop those outside the 4 GiB / canonical range we can print
    windows.retain(|(a, l)| a.checked_add(*l).is_some());
    windows.sort();
    let mut merged: Vec<(u64, u64)> = Vec::new();
    for (a, l) in windows {
        if let Some(last) = merged.last_mut() {
            if a <= last.0 + last.1 {
                let end = (a + l).max(last.0 + last.1);
                last.1 = end - last.0;
                continue;
            }
        }
        merged.push((a, l));
    }
    for (a, l) in merged {
        let bytes: Vec<u8> = (0..l).map(|_| if rng.chance(1, 8) { *rng.pick(&[0u8, 0xff, 0x80, 0x7f]) } else { rng.next() as u8 }).collect();
        st.mem.push((a, bytes));
    }
    // code pointers read from memory should be canonical most of the time
    if ["jmp", "call", "ret"].contains(&m) && rng.chance(7, 8) {
        let v = if amd64 { rng.next() & 0x7fff_ffff_ffff } else { rng.next() & 0xffff_ffff };
        let n = if amd64 { 8 } else { 4 };
        if m == "ret" {
            st.write_mem(sp, n, v as u128);
        } else if let Some(op @ Opnd::Mem { .. }) = d.ops.first() {
            let ea = effective_address(&st, d, op, next_ip);
            st.write_mem(ea, n, v as u128);
        }
    }
    // division: make the quotient fit half of the time
    // registers the memory operands use must keep their steered values
    let addr_regs: Vec<usize> = d
        .ops
        .iter()
        .flat_map(|o| match o {
            Opnd::Mem { base, index, .. } => vec![base.clone(), index.clone()],
            _ => vec![],
        })
        .flatten()
        .filter_map(|r| reg_info(&r).map(|x| x.0))
        .collect();
    let uses = |i: usize| addr_regs.contains(&i);
    if (m == "div" || m == "idiv") && rng.chance(2, 3) && !uses(0) && !uses(2) {
        let (bits, dv): (u32, Option<u128>) = match d.ops.first() {
            Some(Opnd::Reg(r)) => (reg_info(r).map(|x| x.1).unwrap_or(0), Some(st.get(r, next_ip) as u128)),
            Some(op @ Opnd::Mem { size, .. }) => (*size as u32 * 8, st.read_mem(effective_address(&st, d, op, next_ip), *size as usize)),
            _ => (0, None),
        };
        if let (Some(dv), true) = (dv, bits >= 8 && bits <= 64) {
            let maskb: u128 = if bits == 64 { u64::MAX as u128 } else { (1u128 << bits) - 1 };
            let dv = dv & maskb;
            if dv != 0 {
                let dividend: u128 = if m == "div" {
                    let q = (rng.next() as u128) & maskb;
                    let q = if rng.chance(1, 3) { q >> (bits / 2) } else { q };
                    q * dv + (rng.next() as u128 % dv)
                } else {
                    // signed: |q| below 2^(bits-1), remainder with the sign of the dividend
                    let sd = ((dv << (128 - bits)) as i128) >> (128 - bits);
                    let q = (((rng.next() as u128 & maskb) << (128 - bits)) as i128) >> (128 - bits + 1);
                    let r = (rng.next() as u128 % sd.unsigned_abs()) as i128;
                    let p = q.wrapping_mul(sd);
                    (if p < 0 { p - r } else { p + r }) as u128
                };
                let lo = dividend & maskb;
                let hi = (dividend >> bits) & maskb;
                match bits {
                    8 => st.set("ax", (dividend & 0xffff) as u64),
                    16 => {
                        st.set("ax", lo as u64);
                        st.set("dx", hi as u64);
                    }
                    32 => {
                        st.set("eax", lo as u64);
                        st.set("edx", hi as u64);
                    }
                    _ => {
                        st.set("rax", lo as u64);
                        st.set("rdx", hi as u64);
                    }
                }
            }
        }
    }
    if m == "cmpxchg" && rng.chance(1, 2) && !uses(0) {
        let v: Option<(u32, u128)> = match d.ops.first() {
            Some(Opnd::Reg(r)) => reg_info(r).map(|x| (x.1, st.get(r, next_ip) as u128)),
            Some(op @ Opnd::Mem { size, .. }) => st.read_mem(effective_address(&st, d, op, next_ip), *size as usize).map(|v| (*size as u32 * 8, v)),
            _ => None,
        };
        if let Some((bits, v)) = v {
            let acc = match bits {
                8 => "al",
                16 => "ax",
                32 => "eax",
                _ => "rax",
            };
            st.set(acc, v as u64);
        }
    }
    if !amd64 {
        for i in 0..16 {
            st.gpr[i] &= 0xffff_ffff;
        }
    }
    st
}

// ------------------------------------------------------------------------------------------------ answer

fn native_post(d: &Desc, bytes: &[u8], addr: u64, st: &St) -> String {
    if !st.amd64 || denied(d) {
        return "-".to_string();
    }
    if addr < native::CODE_BASE + 64 || addr + 64 + bytes.len() as u64 > native::CODE_BASE + native::CODE_SIZE as u64 {
        return "-".to_string();
    }
    for (a, bs) in &st.mem {
        if *a < DATA || a + bs.len() as u64 > DATA_END {
            return "-".to_string();
        }
    }
    STEPPER.with(|cell| {
        let mut guard = cell.borrow_mut();
        if guard.is_none() {
            match native::Stepper::new() {
                Ok(s) => *guard = Some(s),
                Err(_) => return "-".to_string(),
            }
        }
        let stp = guard.as_mut().unwrap();
        {
            let data = stp.data();
            for b in data.iter_mut() {
                *b = 0;
            }
            for (a, bs) in &st.mem {
                let off = (*a - DATA) as usize;
                data[off..off + bs.len()].copy_from_slice(bs);
            }
        }
        let mut ctx = native::Ctx::default();
        ctx.gpr = st.gpr;
        ctx.xmm = st.xmm;
        for i in 0..6 {
            if st.flags[i] {
                ctx.rflags |= 1 << FLAG_BIT[i];
            }
        }
        let out = stp.step(bytes, addr, &ctx, 64);
        match out {
            native::Outcome::Trap(_) => "next=trap".to_string(),
            native::Outcome::Steps => "next=steps".to_string(),
            native::Outcome::Done(c) => {
                let undef = undefined_after(d, &|r| st.get(r, addr + d.len as u64));
                let mut undef_regs: Vec<String> = Vec::new();
                if undef.contains(&"dst0") {
                    if let Some(Opnd::Reg(r)) = d.ops.first() {
                        if let Some((i, _, _)) = reg_info(r) {
                            undef_regs.push(GPR64[i].to_string());
                        }
                    }
                }
                let mut regs = Vec::new();
                for i in 0..16 {
                    let n = GPR64[i];
                    if undef_regs.iter().any(|u| u == n) {
                        regs.push(format!("{}=?", n));
                    } else {
                        regs.push(format!("{}=0x{:x}:64", n, c.gpr[i]));
                    }
                }
                for (k, f) in FLAGS.iter().enumerate() {
                    if *f == "PF" {
                        continue;
                    }
                    if undef.contains(f) {
                        regs.push(format!("{}=?", f));
                    } else {
                        regs.push(format!("{}=0x{:x}:1", f, (c.rflags >> FLAG_BIT[k]) & 1));
                    }
                }
                if st.with_xmm {
                    for i in 0..16 {
                        regs.push(format!("xmm{}=0x{:x}:128", i, c.xmm[i]));
                    }
                }
                let data = stp.data();
                let mem: Vec<String> = st
                    .mem
                    .iter()
                    .map(|(a, bs)| {
                        let off = (*a - DATA) as usize;
                        let undef_mem = undef.contains(&"dst0") && matches!(d.ops.first(), Some(Opnd::Mem { .. }));
                        if undef_mem {
                            format!("0x{:x}:?", a)
                        } else {
                            format!("0x{:x}:{}", a, bytes_hex(&data[off..off + bs.len()]))
                        }
                    })
                    .collect();
                format!("next=0x{:x} ; {} ; {}", c.rip, regs.join(","), mem.join(","))
            }
        }
    })
}

fn answer(line: &str) -> String {
    let bad = || "bad-request | - | - | -".to_string();
    let (head, state) = match line.split_once(" | ") {
        Some(x) => x,
        None => return bad(),
    };
    let f: Vec<&str> = head.split(' ').collect();
    if f.len() != 4 || f[0] != "ins" {
        return bad();
    }
    let amd64 = f[1] == "amd64";
    let (a, bytes, addr, ms) = match (arch(f[1]), hex_bytes(f[2]), u64::from_str_radix(f[3].trim_start_matches("0x"), 16).ok(), MachState::parse(state)) {
        (Some(a), Some(b), Some(ad), Some(ms)) if f[1] == "amd64" || f[1] == "x86" => (a, b, ad, ms),
        _ => return bad(),
    };
    let st = match St::from_mach(&ms, amd64) {
        Some(s) => s,
        None => return bad(),
    };
    let desc = if amd64 { DEC64.with(|d| d.decode(&bytes, addr)) } else { DEC32.with(|d| d.decode(&bytes, addr)) };
    let desc_txt = desc.as_ref().map(|d| d.text()).unwrap_or_else(|| "-".to_string());
    let (btr, post) = match lift_block(a.as_ref(), &bytes, addr, &options(false)) {
        Ok(r) => {
            let post = exec_btr(&a, &r, &ms, &st.watch(), 2000);
            (btr_str(&r), post)
        }
        Err(e) => (e, "-".to_string()),
    };
    let native = match &desc {
        Some(d) if d.len == bytes.len() => native_post(d, &bytes, addr, &st),
        _ => "-".to_string(),
    };
    format!("{} | {} | {} | {}", btr, post, desc_txt, native)
}

// ------------------------------------------------------------------------------------------------ generator

fn patch(enc: &mut gen::Enc, amd64: bool, addr: u64, rng: &mut Rng) {
    let target = DATA + 0x9000 + rng.below(0x40);
    if let Some((off, rip)) = enc.fix_disp32 {
        let v: u32 = if rip && amd64 { target.wrapping_sub(addr + enc.bytes.len() as u64) as u32 } else { target as u32 };
        enc.bytes[off..off + 4].copy_from_slice(&v.to_le_bytes());
    }
    if let Some((off, n)) = enc.fix_moffs {
        let b = target.to_le_bytes();
        enc.bytes[off..off + n].copy_from_slice(&b[..n]);
    }
}

fn emit_case(em: &mut Emit, amd64: bool, bytes: &[u8], addr: u64, rng: &mut Rng, states: usize) {
    let desc = if amd64 { DEC64.with(|d| d.decode(bytes, addr)) } else { DEC32.with(|d| d.decode(bytes, addr)) };
    let d = match desc {
        Some(d) if d.len == bytes.len() => d,
        _ => return, // not one whole instruction: C05's domain
    };
    let mode = if amd64 { "amd64" } else { "x86" };
    // an F2 prefix that capstone does not report as repne (movs/stos/lods: the processor repeats as with F3)
    let raw_f2 = !d.repne && bytes.iter().take_while(|b| matches!(**b, 0x66 | 0x67 | 0xf2 | 0xf3 | 0x2e | 0x36 | 0x3e | 0x26 | 0x64 | 0x65 | 0xf0)).any(|b| *b == 0xf2);
    let class = format!("{}/{}/{}{}", mode, d.mnemonic, d.form_in(amd64), if raw_f2 { "+f2" } else { "" });
    for _ in 0..states {
        let st = make_state(&d, amd64, addr, rng);
        em.case(&class, format!("ins {} {} 0x{:x} | {}", mode, bytes_hex(bytes), addr, st.mach().to_string()));
    }
}

fn generate(tier: Tier, rng: &mut Rng, em: &mut Emit) {
    let rows = gen::rows();
    let quick = tier == Tier::Quick;
    for amd64 in [true, false] {
        for row in rows.iter() {
            // operand-size / REX variants
            let mut variants: Vec<(u8, u8, Vec<u8>)> = Vec::new(); // (opsz, rex rxb, extra prefixes)
            let rxb = |rng: &mut Rng| if amd64 { rng.below(8) as u8 } else { 0 };
            variants.push((0, 0, vec![]));
            match row.size {
                gen::Size::V => {
                    variants.push((1, 0, vec![]));
                    if amd64 {
                        variants.push((2, 0, vec![]));
                        variants.push((2, rxb(rng), vec![]));
                        variants.push((1, rxb(rng), vec![]));
                        variants.push((3, rxb(rng), vec![]));
                    }
                }
                gen::Size::D64 => {
                    // near branches with an operand-size prefix behave differently on Intel and AMD processors in
                    // 64-bit mode (and truncate the instruction pointer in 32-bit mode): not generated
                    if !["call", "jmp", "ret", "leave"].contains(&row.name) {
                        variants.push((1, 0, vec![]));
                    }
                    if amd64 {
                        variants.push((2, rxb(rng), vec![]));
                    }
                }
                _ => {}
            }
            if amd64 {
                variants.push((0, rxb(rng) | 1, vec![]));
                variants.push((0, rxb(rng) | 4, vec![]));
                variants.push((0, 0x8, vec![])); // bare REX (0x40): spl/bpl/sil/dil instead of ah/ch/dh/bh
            }
            variants.push((0, 0, vec![0x67]));
            variants.push((0, rxb(rng), vec![*rng.pick(&[0x2e, 0x36, 0x3e, 0x26])]));
            variants.push((0, 0, vec![*rng.pick(&[0x64, 0x65])]));
            if row.string {
                variants.push((0, 0, vec![0xf3]));
                variants.push((0, 0, vec![0xf2]));
                variants.push((1, 0, vec![0xf3]));
                if amd64 {
                    variants.push((2, 0, vec![0xf3]));
                }
            } else if row.mand == 0 {
                variants.push((0, 0, vec![0xf0]));
            }
            let has_modrm = !matches!(row.form, gen::Form::PlusR | gen::Form::Plain | gen::Form::Rel8 | gen::Form::Rel32 | gen::Form::Moffs);
            for (vi, (opsz, rex, extra)) in variants.iter().enumerate() {
                let shapes: Vec<usize> = if !has_modrm {
                    vec![0]
                } else if quick {
                    // two shapes per variant, rotating so that every shape occurs for every row
                    vec![(vi * 2) % gen::SHAPES, (vi * 2 + 1 + rng.below(3) as usize) % gen::SHAPES]
                } else {
                    // thorough: four shapes per variant and shard, rotating with the shard's random stream (8 shards cover all)
                    let start = rng.below(gen::SHAPES as u64) as usize;
                    (0..4).map(|k| (start + k * 3 + vi) % gen::SHAPES).collect()
                };
                for shape in shapes {
                    let reps = 1;
                    for _ in 0..reps {
                        let mut enc = match gen::assemble(row, amd64, *opsz, *rex, shape, extra, rng) {
                            Some(e) => e,
                            None => continue,
                        };
                        let addr = if amd64 {
                            CODE_ADDR
                        } else {
                            *rng.pick(&[0x0804_8000u64, 0x0804_8000, 0x0804_8000, 0xffff_fff0, 0x1000])
                        };
                        patch(&mut enc, amd64, addr, rng);
                        let states = if quick { 2 } else { 4 };
                        emit_case(em, amd64, &enc.bytes, addr, rng, states);
                    }
                }
            }
        }
    }
}

fn main() {
    run_main(&generate, &answer);
}
