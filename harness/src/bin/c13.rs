//! C13 — constant propagation never reports a value an execution contradicts.
//!
//! request :  <function in FIL> (probe <loc> <expr in FIL>)*
//! answer  :  (ok (<loc> <name>:<bits>=<T|0x..:bits> ...) ...) (probes <none|0x..:bits|noloc|panic> ...)
//!            | err:<kind> | panic
//! where the map is what `falcon::analysis::constants::constants(&function)` returned (locations sorted,
//! scalars sorted by name; `T` = `Constant::Top`; a scalar without an entry is not printed) and each probe
//! is `Constants::eval(expr)` on the map of that location.  Locations: `i:<block>:<instruction index>`,
//! `e:<head>:<tail>`, `b:<empty block>`.
//!
//! `Constants` exposes only `scalar()` (constant or nothing); whether a scalar is `Top` or has no entry is
//! read from the `Debug` rendering of the map (`<scalar:?>: Top`), the needle being built with the scalar's
//! own `Debug` so that nothing depends on how a `Scalar` prints.
use falcon::analysis::constants::{constants, Constants};
use falcon::il::{self, ControlFlowGraph, Expression as E, Function, FunctionLocation, Operation, Scalar};
use fvh::canon::{catch, const_str, err_str};
use fvh::fil::{expr_str, function_str, read_expr, read_function};
use fvh::genil::{gen_expr, gen_op, partition_guards, rand_const, GenCfg};
use fvh::sx::{parse_all, Sx};
use fvh::{run_main, Emit, Rng, Tier};
use std::collections::{BTreeMap, BTreeSet};

// ---------------------------------------------------------------- answer

fn loc_key(l: &FunctionLocation) -> (u8, usize, usize) {
    match *l {
        FunctionLocation::Instruction(b, i) => (0, b, i),
        FunctionLocation::Edge(h, t) => (1, h, t),
        FunctionLocation::EmptyBlock(b) => (2, b, 0),
    }
}

fn loc_str(l: &FunctionLocation) -> String {
    match *l {
        FunctionLocation::Instruction(b, i) => format!("i:{}:{}", b, i),
        FunctionLocation::Edge(h, t) => format!("e:{}:{}", h, t),
        FunctionLocation::EmptyBlock(b) => format!("b:{}", b),
    }
}

fn parse_loc(s: &str) -> Option<FunctionLocation> {
    let p: Vec<&str> = s.split(':').collect();
    match p.as_slice() {
        ["i", b, i] => Some(FunctionLocation::Instruction(b.parse().ok()?, i.parse().ok()?)),
        ["e", h, t] => Some(FunctionLocation::Edge(h.parse().ok()?, t.parse().ok()?)),
        ["b", b] => Some(FunctionLocation::EmptyBlock(b.parse().ok()?)),
        _ => None,
    }
}

fn expr_scalars(e: &E, out: &mut BTreeSet<Scalar>) {
    for s in e.scalars() {
        out.insert(s.clone());
    }
}

/// every scalar mentioned anywhere in the function
fn universe(f: &Function) -> Vec<Scalar> {
    let mut out = BTreeSet::new();
    for b in f.blocks() {
        for i in b.instructions() {
            match i.operation() {
                Operation::Assign { dst, src } => {
                    out.insert(dst.clone());
                    expr_scalars(src, &mut out);
                }
                Operation::Store { index, src } => {
                    expr_scalars(index, &mut out);
                    expr_scalars(src, &mut out);
                }
                Operation::Load { dst, index } => {
                    out.insert(dst.clone());
                    expr_scalars(index, &mut out);
                }
                Operation::Branch { target } => expr_scalars(target, &mut out),
                Operation::Intrinsic { intrinsic } => {
                    for s in intrinsic.scalars_written().unwrap_or_default() {
                        out.insert(s.clone());
                    }
                    for s in intrinsic.scalars_read().unwrap_or_default() {
                        out.insert(s.clone());
                    }
                }
                Operation::Nop { .. } => {}
            }
        }
    }
    for e in f.edges() {
        if let Some(c) = e.condition() {
            expr_scalars(c, &mut out);
        }
    }
    let mut v: Vec<Scalar> = out.into_iter().collect();
    v.sort_by(|a, b| (a.name(), a.bits()).cmp(&(b.name(), b.bits())));
    v
}

fn constants_str(c: &Constants, uni: &[Scalar]) -> String {
    let dbg = format!("{:?}", c);
    let mut parts = Vec::new();
    for s in uni {
        if let Some(k) = c.scalar(s) {
            parts.push(format!(" {}:{}={}", s.name(), s.bits(), const_str(k)));
        } else if dbg.contains(&format!("{:?}: Top", s)) {
            parts.push(format!(" {}:{}=T", s.name(), s.bits()));
        }
    }
    parts.concat()
}

fn answer(req: &str) -> String {
    let xs = match parse_all(req) {
        Some(x) if !x.is_empty() => x,
        _ => return "bad-request".into(),
    };
    let f = match read_function(&xs[0]) {
        Some(f) => f,
        None => return "bad-request".into(),
    };
    let map = match catch(|| constants(&f)) {
        None => return "panic".into(),
        Some(Err(e)) => return err_str(&e).to_string(),
        Some(Ok(m)) => m,
    };
    let uni = universe(&f);
    let mut by_loc: BTreeMap<(u8, usize, usize), (FunctionLocation, &Constants)> = BTreeMap::new();
    for (pl, c) in map.iter() {
        let fl = pl.function_location().clone();
        by_loc.insert(loc_key(&fl), (fl, c));
    }
    let mut out = String::from("(ok");
    for (_, (fl, c)) in by_loc.iter() {
        out.push_str(&format!(" ({}{})", loc_str(fl), constants_str(c, &uni)));
    }
    out.push_str(") (probes");
    for p in &xs[1..] {
        let r = (|| -> Option<String> {
            let l = p.list()?;
            if l.len() != 3 || l[0].atom()? != "probe" {
                return None;
            }
            let loc = parse_loc(l[1].atom()?)?;
            let e = read_expr(&l[2])?;
            Some(match by_loc.get(&loc_key(&loc)) {
                None => "noloc".to_string(),
                Some((_, c)) => match catch(|| c.eval(&e)) {
                    None => "panic".to_string(),
                    Some(None) => "none".to_string(),
                    Some(Some(k)) => const_str(&k),
                },
            })
        })();
        out.push(' ');
        out.push_str(&r.unwrap_or_else(|| "bad-probe".into()));
    }
    out.push(')');
    out
}

// ---------------------------------------------------------------- generator

#[derive(Clone, Copy, PartialEq)]
enum Mode {
    /// every name of the function is assigned in a prologue at the entry: no scalar can be read before it
    /// is assigned, by construction (the premise of the completion clause)
    Init,
    /// as `Init`, and one assignment stores a value of another width than its destination (raw
    /// `Operation::assign` does not check sorts)
    InitIllSorted,
    /// arbitrary code: scalars may be read before they are assigned (function inputs)
    Free,
    /// as `Free`, but a prologue assigns some of the names (the others stay inputs), so that many
    /// expressions are constant while some names are assigned on some paths only
    Partial,
    /// a scalar assigned on one path only and read after the join (targeted)
    OneSided,
}

fn push_op(block: &mut il::Block, op: Operation) {
    match op {
        Operation::Assign { dst, src } => block.assign(dst, src),
        Operation::Store { index, src } => block.store(index, src),
        Operation::Load { dst, index } => block.load(dst, index),
        Operation::Branch { target } => block.branch(target),
        Operation::Intrinsic { intrinsic } => block.intrinsic(intrinsic),
        Operation::Nop { .. } => block.nop(),
    }
}

/// the CFG shape of `genil::gen_cfg`, with an optional initialising prologue in the entry block
fn build(rng: &mut Rng, g: &GenCfg, mode: Mode) -> Function {
    let n = rng.range(1, g.max_blocks as u64) as usize;
    let mut cfg = ControlFlowGraph::new();
    let mut ill_done = false;
    for bi in 0..n {
        let empty = g.empty_blocks && rng.chance(1, 6) && !(bi == 0 && mode != Mode::Free);
        let k = if empty { 0 } else { rng.range(1, g.max_instrs as u64) };
        let mut ops: Vec<Operation> = Vec::new();
        if bi == 0 && mode != Mode::Free {
            // prologue: every name gets a value; later ones may be computed from earlier ones
            let mut order: Vec<(String, usize)> = g.names.clone();
            for i in (1..order.len()).rev() {
                let j = rng.below(i as u64 + 1) as usize;
                order.swap(i, j);
            }
            if mode == Mode::Partial {
                let keep = rng.range(1, order.len() as u64 - 1) as usize;
                order.truncate(keep);
            }
            let mut done: Vec<(String, usize)> = Vec::new();
            for (nm, b) in order {
                let dst = il::scalar(nm.clone(), b);
                let src = if !done.is_empty() && rng.chance(1, 4) {
                    let mut gg = g.clone();
                    gg.names = done.clone();
                    gen_expr(rng, &gg, b, 1)
                } else {
                    E::Constant(rand_const(rng, b))
                };
                if rng.chance(1, 10) && b % 8 == 0 && g.mem {
                    ops.push(Operation::load(dst, il::expr_const(0x1000 + 8 * done.len() as u64, g.addr_bits)));
                } else {
                    ops.push(Operation::assign(dst, src));
                }
                done.push((nm, b));
            }
        }
        for _ in 0..k {
            let mut op = gen_op(rng, g);
            if mode == Mode::InitIllSorted && !ill_done && rng.chance(1, 3) {
                if let Operation::Assign { dst, .. } = &op {
                    let other: Vec<usize> = g.names.iter().map(|x| x.1).filter(|w| *w != dst.bits()).collect();
                    if !other.is_empty() {
                        let w = *rng.pick(&other);
                        op = Operation::assign(dst.clone(), E::Constant(rand_const(rng, w)));
                        ill_done = true;
                    }
                }
            }
            ops.push(op);
        }
        let block = cfg.new_block().unwrap();
        // sometimes leave a gap in the instruction indices (a nop that is removed again with
        // `Block::remove_instruction`): index != position, as after any editing pass
        let gap = if ops.len() >= 2 && rng.chance(1, 5) { Some(rng.below(ops.len() as u64) as usize) } else { None };
        for (i, op) in ops.into_iter().enumerate() {
            if gap == Some(i) {
                block.nop();
            }
            push_op(block, op);
        }
        if let Some(i) = gap {
            block.remove_instruction(i).unwrap();
        }
    }
    let entry = 0usize;
    for h in 0..n {
        let deg = match rng.below(10) {
            0 => 0,
            1..=4 => 1,
            5..=8 => 2,
            _ => 3,
        };
        let mut tails: Vec<usize> = Vec::new();
        if h + 1 < n && (!g.unreachable || rng.chance(9, 10)) && deg > 0 {
            tails.push(h + 1);
        }
        let mut tries = 0;
        while tails.len() < deg && tries < 10 {
            tries += 1;
            let t = rng.below(n as u64) as usize;
            if tails.contains(&t) || (t == h && !g.self_loops) || (t == entry && !g.entry_in_loop) {
                continue;
            }
            tails.push(t);
        }
        let guards = if g.partition_guards {
            partition_guards(rng, g, tails.len())
        } else {
            tails.iter().map(|_| if rng.chance(1, 4) { None } else { Some(gen_expr(rng, g, 1, 1)) }).collect()
        };
        for (t, c) in tails.iter().zip(guards) {
            match c {
                None => cfg.unconditional_edge(h, *t).unwrap(),
                Some(c) => cfg.conditional_edge(h, *t, c).unwrap(),
            }
        }
    }
    cfg.set_entry(entry).unwrap();
    cfg.set_exit(n - 1).unwrap();
    Function::new(0x1000, cfg)
}

/// shape of the function: `dag` / `loop`, `+deadpred` when a block reachable from the entry has a
/// predecessor that is not
fn shape(f: &Function) -> String {
    let cfg = f.control_flow_graph();
    let entry = cfg.entry().unwrap_or(0);
    let mut reach: BTreeSet<usize> = BTreeSet::new();
    let mut stack = vec![entry];
    while let Some(b) = stack.pop() {
        if !reach.insert(b) {
            continue;
        }
        for e in cfg.edges_out(b).unwrap_or_default() {
            stack.push(e.tail());
        }
    }
    // a cycle among reachable blocks: some reachable block reaches itself
    let mut cyc = false;
    for &s in &reach {
        let mut seen: BTreeSet<usize> = BTreeSet::new();
        let mut st: Vec<usize> = cfg.edges_out(s).unwrap_or_default().iter().map(|e| e.tail()).collect();
        while let Some(b) = st.pop() {
            if b == s {
                cyc = true;
                break;
            }
            if !seen.insert(b) {
                continue;
            }
            for e in cfg.edges_out(b).unwrap_or_default() {
                st.push(e.tail());
            }
        }
        if cyc {
            break;
        }
    }
    let deadpred = cfg.edges().iter().any(|e| reach.contains(&e.tail()) && !reach.contains(&e.head()));
    format!("{}{}", if cyc { "loop" } else { "dag" }, if deadpred { "+deadpred" } else { "" })
}

fn all_locs(f: &Function) -> Vec<String> {
    let mut v = Vec::new();
    for b in f.blocks() {
        if b.instructions().is_empty() {
            v.push(format!("b:{}", b.index()));
        }
        for i in b.instructions() {
            v.push(format!("i:{}:{}", b.index(), i.index()));
        }
    }
    for e in f.edges() {
        v.push(format!("e:{}:{}", e.head(), e.tail()));
    }
    v
}

fn pick_names(rng: &mut Rng) -> Vec<(String, usize)> {
    let pool: [(&str, usize); 8] =
        [("a", 32), ("b", 32), ("c", 32), ("d", 32), ("f", 1), ("g", 1), ("w", 64), ("h", 8)];
    let k = rng.range(2, 5) as usize;
    let mut v: Vec<(String, usize)> = Vec::new();
    // always one name of at least 8 bits (range guards need one) and usually two of one width
    v.push(("a".into(), 32));
    while v.len() < k {
        let (n, b) = *rng.pick(&pool);
        if !v.iter().any(|x| x.0 == n) {
            v.push((n.into(), b));
        }
    }
    v
}

/// a scalar assigned on one path only (an input on the other) that is read after the join:
/// a diamond, or a loop whose body assigns it
fn build_onesided(rng: &mut Rng) -> (Function, GenCfg) {
    let mut g = GenCfg::default();
    g.names = vec![("x".into(), 32), ("k".into(), 32), ("y".into(), 32), ("a".into(), 32)];
    let x = il::scalar("x", 32);
    let k = il::scalar("k", 32);
    let y = il::scalar("y", 32);
    let mut gx = g.clone();
    gx.names = vec![("x".into(), 32), ("k".into(), 32)];
    let mut gk = g.clone();
    gk.names = vec![("k".into(), 32)];
    let mut ga = g.clone();
    ga.names = vec![("a".into(), 32)];
    let use_x = |rng: &mut Rng| -> E {
        if rng.chance(1, 3) {
            E::Scalar(x.clone())
        } else {
            E::add(E::Scalar(x.clone()), gen_expr(rng, &gx, 32, 1)).unwrap()
        }
    };
    let mut cfg = ControlFlowGraph::new();
    let loop_ = rng.chance(1, 2);
    if !loop_ {
        {
            let b = cfg.new_block().unwrap();
            b.assign(k.clone(), E::Constant(rand_const(rng, 32)));
        }
        {
            let b = cfg.new_block().unwrap();
            b.assign(x.clone(), gen_expr(rng, &gk, 32, 1));
        }
        {
            let b = cfg.new_block().unwrap();
            if rng.chance(1, 2) {
                b.nop();
            } else {
                b.assign(k.clone(), E::Scalar(k.clone()));
            }
        }
        {
            let b = cfg.new_block().unwrap();
            let e = use_x(rng);
            b.assign(y.clone(), e);
            b.nop();
        }
        let gs = partition_guards(rng, &ga, 2);
        cfg.conditional_edge(0, 1, gs[0].clone().unwrap()).unwrap();
        cfg.conditional_edge(0, 2, gs[1].clone().unwrap()).unwrap();
        cfg.unconditional_edge(1, 3).unwrap();
        cfg.unconditional_edge(2, 3).unwrap();
        cfg.set_entry(0).unwrap();
        cfg.set_exit(3).unwrap();
    } else {
        {
            let b = cfg.new_block().unwrap();
            b.assign(k.clone(), E::Constant(rand_const(rng, 32)));
        }
        {
            let b = cfg.new_block().unwrap();
            let e = use_x(rng);
            b.assign(y.clone(), e);
            b.nop();
        }
        {
            let b = cfg.new_block().unwrap();
            b.assign(x.clone(), gen_expr(rng, &gk, 32, 1));
        }
        {
            let b = cfg.new_block().unwrap();
            b.nop();
        }
        let gs = partition_guards(rng, &ga, 2);
        cfg.unconditional_edge(0, 1).unwrap();
        cfg.conditional_edge(1, 2, gs[0].clone().unwrap()).unwrap();
        cfg.conditional_edge(1, 3, gs[1].clone().unwrap()).unwrap();
        cfg.unconditional_edge(2, 1).unwrap();
        cfg.set_entry(0).unwrap();
        cfg.set_exit(3).unwrap();
    }
    (Function::new(0x1000, cfg), g)
}

fn emit_one(rng: &mut Rng, emit: &mut Emit, mode: Mode) {
    if mode == Mode::OneSided {
        let (f, g) = build_onesided(rng);
        let locs = all_locs(&f);
        let mut req = function_str(&f);
        if rng.chance(1, 2) {
            let l = rng.pick(&locs).clone();
            let e = gen_expr(rng, &g, 32, 1);
            req.push_str(&format!(" (probe {} {})", l, expr_str(&e)));
        }
        emit.case(&format!("onesided/{}", shape(&f)), req);
        return;
    }
    let mut g = GenCfg::default();
    g.names = pick_names(rng);
    g.max_blocks = rng.range(1, 7) as usize;
    g.max_instrs = rng.range(1, 4) as usize;
    g.expr_depth = rng.range(1, 2) as u32;
    g.branch = rng.chance(1, 8);
    g.intrinsic = rng.chance(1, 3);
    g.mem = rng.chance(2, 3);
    g.partition_guards = rng.chance(3, 4);
    g.unreachable = rng.chance(1, 2);
    g.entry_in_loop = rng.chance(1, 2);
    g.addresses = false;
    let f = build(rng, &g, mode);
    let locs = all_locs(&f);
    let mut req = function_str(&f);
    let np = rng.below(3);
    for _ in 0..np {
        let l = rng.pick(&locs).clone();
        let b = rng.pick(&g.names).1;
        let e = gen_expr(rng, &g, b, 2);
        req.push_str(&format!(" (probe {} {})", l, expr_str(&e)));
    }
    let m = match mode {
        Mode::Init => "init",
        Mode::InitIllSorted => "init-illsorted",
        Mode::Free => "free",
        Mode::Partial => "partial",
        Mode::OneSided => "onesided",
    };
    emit.case(&format!("{}/{}", m, shape(&f)), req);
}

fn generate(tier: Tier, rng: &mut Rng, emit: &mut Emit) {
    let n = match tier {
        Tier::Quick => 10_000,
        Tier::Thorough => 125_000,
    };
    for i in 0..n {
        let mode = match i % 10 {
            0..=5 => Mode::Init,
            6 => Mode::InitIllSorted,
            7 => Mode::Free,
            8 => Mode::Partial,
            _ => if i % 100 == 9 { Mode::OneSided } else { Mode::Partial },
        };
        emit_one(rng, emit, mode);
    }
}

fn main() {
    let _ = Sx::Atom(String::new());
    run_main(&generate, &answer);
}
