//! Native single-stepper for x86-64: executes ONE instruction on the host CPU from a given register/flag/memory
//! state and reports the state after it.
//!
//! Technique: context switch through the kernel's signal machinery, no hand-written assembly.
//!   1. `raise(SIGUSR2)`: the handler saves the interrupted (harness) context and overwrites the signal frame with
//!      the test context: 16 GPRs, rip = address of the instruction bytes in the RWX page, xmm0..15, and
//!      RFLAGS = test flags | TF (single-step).  `sigreturn` loads it.
//!   2. the CPU executes exactly one instruction and raises #DB: SIGTRAP.  The handler copies the frame (all
//!      registers, the NEXT rip, flags, xmm) out, puts the saved harness context back and returns.
//!      A `rep` string instruction traps after every iteration with rip unchanged: the handler lets it continue.
//!   3. SIGSEGV / SIGBUS / SIGILL / SIGFPE during step 2 = the instruction trapped: reported as `trap`.
//! The handler runs on an alternate signal stack, so nothing is ever pushed on the test stack.
use std::sync::atomic::{AtomicI32, Ordering};

pub const CODE_BASE: u64 = 0x7000_0000;
pub const CODE_SIZE: usize = 0x2000;
pub const DATA_BASE: u64 = 0x7100_0000;
pub const DATA_SIZE: usize = 0x2_0000;

#[derive(Clone, Debug, Default)]
pub struct Ctx {
    /// rax rcx rdx rbx rsp rbp rsi rdi r8..r15 (hardware numbering)
    pub gpr: [u64; 16],
    pub rip: u64,
    pub rflags: u64,
    pub xmm: [u128; 16],
}

#[derive(Clone, Debug)]
pub enum Outcome {
    Done(Ctx),
    /// signal number of the fault
    Trap(i32),
    /// the rep loop did not end within the iteration budget
    Steps,
}

// hardware register number -> index into gregs
const GREG_OF: [usize; 16] = [
    libc::REG_RAX as usize, libc::REG_RCX as usize, libc::REG_RDX as usize, libc::REG_RBX as usize,
    libc::REG_RSP as usize, libc::REG_RBP as usize, libc::REG_RSI as usize, libc::REG_RDI as usize,
    libc::REG_R8 as usize, libc::REG_R9 as usize, libc::REG_R10 as usize, libc::REG_R11 as usize,
    libc::REG_R12 as usize, libc::REG_R13 as usize, libc::REG_R14 as usize, libc::REG_R15 as usize,
];

const PHASE_IDLE: i32 = 0;
const PHASE_ENTER: i32 = 1;
const PHASE_RUN: i32 = 2;

static PHASE: AtomicI32 = AtomicI32::new(PHASE_IDLE);

struct Shared {
    test: Ctx,
    out: Ctx,
    result: i32, // 0 = done, >0 = signal, -1 = steps
    saved_gregs: [i64; 23],
    saved_fp: [u8; 512],
    start_rip: u64,
    iterations: u32,
    max_iterations: u32,
}

static mut SHARED: Option<Box<Shared>> = None;

const TF: u64 = 0x100;
/// CF PF AF ZF SF DF OF
pub const FLAG_MASK: u64 = 0x1 | 0x4 | 0x10 | 0x40 | 0x80 | 0x400 | 0x800;

unsafe fn restore_host(uc: *mut libc::ucontext_t, sh: &mut Shared) {
    (*uc).uc_mcontext.gregs = sh.saved_gregs;
    let fp = (*uc).uc_mcontext.fpregs as *mut u8;
    if !fp.is_null() {
        std::ptr::copy_nonoverlapping(sh.saved_fp.as_ptr(), fp, 512);
    }
}

unsafe fn capture(uc: *mut libc::ucontext_t, sh: &mut Shared) {
    let g = &(*uc).uc_mcontext.gregs;
    for i in 0..16 {
        sh.out.gpr[i] = g[GREG_OF[i]] as u64;
    }
    sh.out.rip = g[libc::REG_RIP as usize] as u64;
    sh.out.rflags = g[libc::REG_EFL as usize] as u64;
    let fp = (*uc).uc_mcontext.fpregs;
    if !fp.is_null() {
        for i in 0..16 {
            let e = (*fp)._xmm[i].element;
            sh.out.xmm[i] = (e[0] as u128) | ((e[1] as u128) << 32) | ((e[2] as u128) << 64) | ((e[3] as u128) << 96);
        }
    }
}

extern "C" fn handler(sig: libc::c_int, _info: *mut libc::siginfo_t, ucv: *mut libc::c_void) {
    unsafe {
        let uc = ucv as *mut libc::ucontext_t;
        #[allow(static_mut_refs)]
        let sh: &mut Shared = match SHARED.as_mut() {
            Some(s) => s,
            None => libc::_exit(97),
        };
        match PHASE.load(Ordering::SeqCst) {
            PHASE_ENTER if sig == libc::SIGUSR2 => {
                sh.saved_gregs = (*uc).uc_mcontext.gregs;
                let fp = (*uc).uc_mcontext.fpregs;
                if fp.is_null() {
                    libc::_exit(96);
                }
                std::ptr::copy_nonoverlapping(fp as *const u8, sh.saved_fp.as_mut_ptr(), 512);
                let g = &mut (*uc).uc_mcontext.gregs;
                for i in 0..16 {
                    g[GREG_OF[i]] = sh.test.gpr[i] as i64;
                }
                g[libc::REG_RIP as usize] = sh.test.rip as i64;
                let host_fl = g[libc::REG_EFL as usize] as u64;
                g[libc::REG_EFL as usize] = ((host_fl & !FLAG_MASK) | (sh.test.rflags & FLAG_MASK) | TF) as i64;
                for i in 0..16 {
                    let v = sh.test.xmm[i];
                    (*fp)._xmm[i].element = [v as u32, (v >> 32) as u32, (v >> 64) as u32, (v >> 96) as u32];
                }
                // make sure the kernel restores the SSE component from the frame (XSAVE header at +512)
                let xstate_bv = (fp as *mut u8).add(512) as *mut u64;
                let sw = (fp as *const u8).add(464) as *const u32; // sw_reserved.magic1
                if *sw == 0x4650_5853 {
                    *xstate_bv |= 0x3;
                }
                PHASE.store(PHASE_RUN, Ordering::SeqCst);
            }
            PHASE_RUN => {
                if sig == libc::SIGTRAP {
                    let rip = (*uc).uc_mcontext.gregs[libc::REG_RIP as usize] as u64;
                    if rip == sh.start_rip && sh.iterations < sh.max_iterations {
                        // one iteration of a rep-prefixed string instruction: keep going (TF is still set in the frame)
                        sh.iterations += 1;
                        return;
                    }
                    if rip == sh.start_rip {
                        sh.result = -1;
                    } else {
                        capture(uc, sh);
                        sh.result = 0;
                    }
                } else {
                    sh.result = sig;
                }
                restore_host(uc, sh);
                PHASE.store(PHASE_IDLE, Ordering::SeqCst);
            }
            _ => {
                // a fault of the harness itself: die loudly
                let msg = b"native stepper: unexpected signal outside a step\n";
                libc::write(2, msg.as_ptr() as *const libc::c_void, msg.len());
                libc::_exit(98);
            }
        }
    }
}

pub struct Stepper {
    _priv: (),
}

impl Stepper {
    /// maps the code page and the scratch data region at their fixed addresses and installs the handlers
    pub fn new() -> Result<Stepper, String> {
        unsafe {
            let flags = libc::MAP_PRIVATE | libc::MAP_ANONYMOUS | libc::MAP_FIXED_NOREPLACE;
            let c = libc::mmap(CODE_BASE as *mut libc::c_void, CODE_SIZE, libc::PROT_READ | libc::PROT_WRITE | libc::PROT_EXEC, flags, -1, 0);
            if c as u64 != CODE_BASE {
                return Err(format!("mmap code page failed ({:?})", c));
            }
            let d = libc::mmap(DATA_BASE as *mut libc::c_void, DATA_SIZE, libc::PROT_READ | libc::PROT_WRITE, flags, -1, 0);
            if d as u64 != DATA_BASE {
                return Err(format!("mmap data region failed ({:?})", d));
            }
            // alternate signal stack
            let ss_size = 1 << 16;
            let ss = libc::mmap(std::ptr::null_mut(), ss_size, libc::PROT_READ | libc::PROT_WRITE, libc::MAP_PRIVATE | libc::MAP_ANONYMOUS, -1, 0);
            let st = libc::stack_t { ss_sp: ss, ss_flags: 0, ss_size };
            if libc::sigaltstack(&st, std::ptr::null_mut()) != 0 {
                return Err("sigaltstack failed".into());
            }
            SHARED = Some(Box::new(Shared {
                test: Ctx::default(),
                out: Ctx::default(),
                result: 0,
                saved_gregs: [0; 23],
                saved_fp: [0; 512],
                start_rip: 0,
                iterations: 0,
                max_iterations: 0,
            }));
            let mut sa: libc::sigaction = std::mem::zeroed();
            sa.sa_sigaction = handler as usize;
            sa.sa_flags = libc::SA_SIGINFO | libc::SA_ONSTACK;
            libc::sigfillset(&mut sa.sa_mask);
            for s in [libc::SIGUSR2, libc::SIGTRAP, libc::SIGSEGV, libc::SIGBUS, libc::SIGILL, libc::SIGFPE] {
                if libc::sigaction(s, &sa, std::ptr::null_mut()) != 0 {
                    return Err("sigaction failed".into());
                }
            }
        }
        Ok(Stepper { _priv: () })
    }

    pub fn data(&mut self) -> &mut [u8] {
        unsafe { std::slice::from_raw_parts_mut(DATA_BASE as *mut u8, DATA_SIZE) }
    }

    /// Executes `bytes` placed at `addr` (inside the code page) from `ctx`.
    pub fn step(&mut self, bytes: &[u8], addr: u64, ctx: &Ctx, max_iterations: u32) -> Outcome {
        assert!(addr >= CODE_BASE + 64 && addr + bytes.len() as u64 + 64 <= CODE_BASE + CODE_SIZE as u64);
        unsafe {
            let code = std::slice::from_raw_parts_mut(CODE_BASE as *mut u8, CODE_SIZE);
            // everything around the instruction is `int3`
            for b in code.iter_mut() {
                *b = 0xcc;
            }
            let off = (addr - CODE_BASE) as usize;
            code[off..off + bytes.len()].copy_from_slice(bytes);
            #[allow(static_mut_refs)]
            let sh = SHARED.as_mut().unwrap();
            sh.test = ctx.clone();
            sh.test.rip = addr;
            sh.start_rip = addr;
            sh.iterations = 0;
            sh.max_iterations = max_iterations;
            sh.result = -2;
            std::sync::atomic::compiler_fence(Ordering::SeqCst);
            PHASE.store(PHASE_ENTER, Ordering::SeqCst);
            libc::raise(libc::SIGUSR2);
            std::sync::atomic::compiler_fence(Ordering::SeqCst);
            #[allow(static_mut_refs)]
            let sh = SHARED.as_mut().unwrap();
            match std::ptr::read_volatile(&sh.result) {
                0 => Outcome::Done(sh.out.clone()),
                -1 => Outcome::Steps,
                s => Outcome::Trap(s),
            }
        }
    }
}
