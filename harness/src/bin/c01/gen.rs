//! Encoding templates: rows of the x86 opcode maps for every mnemonic falcon's dispatcher accepts, assembled with
//! prefixes (operand size 66, address size 67, REX.W/R/X/B, segment overrides, F2/F3/lock) and an enumeration of
//! ModRM/SIB shapes.  The templates are written by hand from the SDM opcode maps; capstone is only used afterwards
//! (in c01.rs) to describe what was assembled.
use fvh::Rng;

#[derive(Clone, Copy, PartialEq, Debug)]
pub enum Imm {
    None,
    Ib,
    /// imm16 with operand size 16, otherwise imm32
    Iz,
    /// imm16 always (ret imm16)
    Iw,
    /// imm16/32, imm64 with REX.W (mov r, imm)
    Iv,
}

#[derive(Clone, Copy, PartialEq, Debug)]
pub enum Form {
    /// opcode ModRM (register or memory r/m), reg field free
    Modrm,
    /// r/m must be memory
    ModrmMem,
    /// r/m must be a register
    ModrmReg,
    /// opcode /digit
    Grp(u8),
    GrpMem(u8),
    GrpReg(u8),
    /// register in the low three bits of the last opcode byte
    PlusR,
    /// no ModRM
    Plain,
    Rel8,
    Rel32,
    /// moffs: absolute address of address size
    Moffs,
}

#[derive(Clone, Copy, PartialEq, Debug)]
pub enum Size {
    /// byte operation: no operand-size variants
    B,
    /// 16/32/64 by 66 / REX.W
    V,
    /// operand size fixed by the opcode (SSE, setcc, jcc …): only REX.R/X/B variants
    F,
    /// default 64-bit operand size in 64-bit mode (push/pop/call/jmp/ret): 66 variant only
    D64,
}

#[derive(Clone, Copy, Debug)]
pub struct Row {
    pub name: &'static str,
    /// mandatory prefix (0 = none) — for SSE rows
    pub mand: u8,
    pub op: &'static [u8],
    pub form: Form,
    pub imm: Imm,
    pub size: Size,
    /// 0 = both modes, 32 / 64 = only that mode
    pub only: u8,
    /// string instruction (rep / repne variants)
    pub string: bool,
}

const fn row(name: &'static str, op: &'static [u8], form: Form, imm: Imm, size: Size) -> Row {
    Row { name, mand: 0, op, form, imm, size, only: 0, string: false }
}
const fn sse(name: &'static str, mand: u8, op: &'static [u8], form: Form, imm: Imm) -> Row {
    Row { name, mand, op, form, imm, size: Size::F, only: 0, string: false }
}
const fn only(r: Row, m: u8) -> Row {
    Row { only: m, ..r }
}
const fn string(r: Row) -> Row {
    Row { string: true, ..r }
}

pub fn rows() -> Vec<Row> {
    use Form::*;
    use Imm::{Ib, Iv, Iw, Iz};
    use Size::*;
    let n = Imm::None;
    let mut v: Vec<Row> = Vec::new();
    // ---- one-byte map: the eight ALU rows
    const ALU: [&str; 8] = ["add", "or", "adc", "sbb", "and", "sub", "xor", "cmp"];
    const ALU_OPS: [[u8; 1]; 64] = {
        let mut a = [[0u8; 1]; 64];
        let mut i = 0;
        while i < 64 {
            a[i] = [i as u8];
            i += 1;
        }
        a
    };
    for k in 0..8 {
        v.push(row(ALU[k], &ALU_OPS[k * 8], Modrm, n, B));
        v.push(row(ALU[k], &ALU_OPS[k * 8 + 1], Modrm, n, V));
        v.push(row(ALU[k], &ALU_OPS[k * 8 + 2], Modrm, n, B));
        v.push(row(ALU[k], &ALU_OPS[k * 8 + 3], Modrm, n, V));
        v.push(row(ALU[k], &ALU_OPS[k * 8 + 4], Plain, Ib, B));
        v.push(row(ALU[k], &ALU_OPS[k * 8 + 5], Plain, Iz, V));
        v.push(row(ALU[k], &[0x80], Grp(k as u8), Ib, B));
        v.push(row(ALU[k], &[0x81], Grp(k as u8), Iz, V));
        v.push(row(ALU[k], &[0x83], Grp(k as u8), Ib, V));
    }
    v.push(only(row("inc", &[0x40], PlusR, n, V), 32));
    v.push(only(row("dec", &[0x48], PlusR, n, V), 32));
    v.push(row("push", &[0x50], PlusR, n, D64));
    v.push(row("pop", &[0x58], PlusR, n, D64));
    v.push(only(row("movsxd", &[0x63], Modrm, n, V), 64));
    v.push(row("push", &[0x68], Plain, Iz, D64));
    v.push(row("push", &[0x6a], Plain, Ib, D64));
    v.push(row("imul", &[0x69], Modrm, Iz, V));
    v.push(row("imul", &[0x6b], Modrm, Ib, V));
    const JCC8: [[u8; 1]; 16] = [[0x70], [0x71], [0x72], [0x73], [0x74], [0x75], [0x76], [0x77], [0x78], [0x79], [0x7a], [0x7b], [0x7c], [0x7d], [0x7e], [0x7f]];
    for k in 0..16 {
        v.push(row("jcc", &JCC8[k], Rel8, n, F));
    }
    v.push(row("test", &[0x84], Modrm, n, B));
    v.push(row("test", &[0x85], Modrm, n, V));
    v.push(row("xchg", &[0x86], Modrm, n, B));
    v.push(row("xchg", &[0x87], Modrm, n, V));
    v.push(row("mov", &[0x88], Modrm, n, B));
    v.push(row("mov", &[0x89], Modrm, n, V));
    v.push(row("mov", &[0x8a], Modrm, n, B));
    v.push(row("mov", &[0x8b], Modrm, n, V));
    v.push(row("lea", &[0x8d], ModrmMem, n, V));
    v.push(row("pop", &[0x8f], Grp(0), n, D64));
    v.push(row("nop", &[0x90], Plain, n, F));
    v.push(row("pause", &[0xf3, 0x90], Plain, n, F));
    v.push(row("xchg", &[0x90], PlusR, n, V));
    v.push(row("cbw", &[0x98], Plain, n, V));
    v.push(row("cwd", &[0x99], Plain, n, V));
    v.push(row("wait", &[0x9b], Plain, n, F));
    v.push(row("sahf", &[0x9e], Plain, n, F));
    v.push(row("mov", &[0xa0], Moffs, n, B));
    v.push(row("mov", &[0xa1], Moffs, n, V));
    v.push(row("mov", &[0xa2], Moffs, n, B));
    v.push(row("mov", &[0xa3], Moffs, n, V));
    v.push(string(row("movs", &[0xa4], Plain, n, B)));
    v.push(string(row("movs", &[0xa5], Plain, n, V)));
    v.push(string(row("cmps", &[0xa6], Plain, n, B)));
    v.push(string(row("cmps", &[0xa7], Plain, n, V)));
    v.push(row("test", &[0xa8], Plain, Ib, B));
    v.push(row("test", &[0xa9], Plain, Iz, V));
    v.push(string(row("stos", &[0xaa], Plain, n, B)));
    v.push(string(row("stos", &[0xab], Plain, n, V)));
    v.push(string(row("lods", &[0xac], Plain, n, B)));
    v.push(string(row("lods", &[0xad], Plain, n, V)));
    v.push(string(row("scas", &[0xae], Plain, n, B)));
    v.push(string(row("scas", &[0xaf], Plain, n, V)));
    v.push(row("mov", &[0xb0], PlusR, Ib, B));
    v.push(row("mov", &[0xb8], PlusR, Iv, V));
    // shifts and rotates: /0 rol /1 ror /2 rcl /3 rcr /4 shl /5 shr /6 sal /7 sar
    for d in [0u8, 1, 4, 5, 6, 7] {
        v.push(row("shift", &[0xc0], Grp(d), Ib, B));
        v.push(row("shift", &[0xc1], Grp(d), Ib, V));
        v.push(row("shift", &[0xd0], Grp(d), n, B));
        v.push(row("shift", &[0xd1], Grp(d), n, V));
        v.push(row("shift", &[0xd2], Grp(d), n, B));
        v.push(row("shift", &[0xd3], Grp(d), n, V));
    }
    v.push(row("ret", &[0xc2], Plain, Iw, D64));
    v.push(row("ret", &[0xc3], Plain, n, D64));
    v.push(row("mov", &[0xc6], Grp(0), Ib, B));
    v.push(row("mov", &[0xc7], Grp(0), Iz, V));
    v.push(row("leave", &[0xc9], Plain, n, D64));
    v.push(row("loopne", &[0xe0], Rel8, n, F));
    v.push(row("loope", &[0xe1], Rel8, n, F));
    v.push(row("loop", &[0xe2], Rel8, n, F));
    v.push(row("jcxz", &[0xe3], Rel8, n, F));
    v.push(row("call", &[0xe8], Rel32, n, F));
    v.push(row("jmp", &[0xe9], Rel32, n, F));
    v.push(row("jmp", &[0xeb], Rel8, n, F));
    v.push(row("cmc", &[0xf5], Plain, n, F));
    v.push(row("test", &[0xf6], Grp(0), Ib, B));
    v.push(row("test", &[0xf7], Grp(0), Iz, V));
    for (d, name) in [(2u8, "not"), (3, "neg"), (4, "mul"), (5, "imul"), (6, "div"), (7, "idiv")] {
        v.push(row(name, &[0xf6], Grp(d), n, B));
        v.push(row(name, &[0xf7], Grp(d), n, V));
    }
    v.push(row("clc", &[0xf8], Plain, n, F));
    v.push(row("stc", &[0xf9], Plain, n, F));
    v.push(row("cld", &[0xfc], Plain, n, F));
    v.push(row("std", &[0xfd], Plain, n, F));
    v.push(row("inc", &[0xfe], Grp(0), n, B));
    v.push(row("dec", &[0xfe], Grp(1), n, B));
    v.push(row("inc", &[0xff], Grp(0), n, V));
    v.push(row("dec", &[0xff], Grp(1), n, V));
    v.push(row("call", &[0xff], Grp(2), n, D64));
    v.push(row("jmp", &[0xff], Grp(4), n, D64));
    v.push(row("push", &[0xff], Grp(6), n, D64));
    v.push(row("ud2", &[0x0f, 0x0b], Plain, n, F));
    // ---- two-byte map, general
    for d in 0..4u8 {
        v.push(row("prefetch", &[0x0f, 0x18], GrpMem(d), n, F));
    }
    v.push(row("nop", &[0x0f, 0x1f], Grp(0), n, V));
    const CC2: [[u8; 2]; 48] = {
        let mut a = [[0x0fu8, 0]; 48];
        let mut i = 0;
        while i < 16 {
            a[i] = [0x0f, 0x40 + i as u8];
            a[16 + i] = [0x0f, 0x80 + i as u8];
            a[32 + i] = [0x0f, 0x90 + i as u8];
            i += 1;
        }
        a
    };
    for k in 0..16 {
        v.push(row("cmovcc", &CC2[k], Modrm, n, V));
        v.push(row("jcc", &CC2[16 + k], Rel32, n, F));
        v.push(row("setcc", &CC2[32 + k], Grp(0), n, B));
    }
    v.push(row("bt", &[0x0f, 0xa3], Modrm, n, V));
    v.push(row("bts", &[0x0f, 0xab], Modrm, n, V));
    v.push(row("btr", &[0x0f, 0xb3], Modrm, n, V));
    v.push(row("btc", &[0x0f, 0xbb], Modrm, n, V));
    for d in 4..8u8 {
        v.push(row("btx", &[0x0f, 0xba], Grp(d), Ib, V));
    }
    v.push(row("shld", &[0x0f, 0xa4], Modrm, Ib, V));
    v.push(row("shld", &[0x0f, 0xa5], Modrm, n, V));
    v.push(row("shrd", &[0x0f, 0xac], Modrm, Ib, V));
    v.push(row("shrd", &[0x0f, 0xad], Modrm, n, V));
    v.push(row("imul", &[0x0f, 0xaf], Modrm, n, V));
    v.push(row("cmpxchg", &[0x0f, 0xb0], Modrm, n, B));
    v.push(row("cmpxchg", &[0x0f, 0xb1], Modrm, n, V));
    v.push(row("movzx", &[0x0f, 0xb6], Modrm, n, V));
    v.push(row("movzx", &[0x0f, 0xb7], Modrm, n, V));
    v.push(row("movsx", &[0x0f, 0xbe], Modrm, n, V));
    v.push(row("movsx", &[0x0f, 0xbf], Modrm, n, V));
    v.push(row("bsf", &[0x0f, 0xbc], Modrm, n, V));
    v.push(row("bsr", &[0x0f, 0xbd], Modrm, n, V));
    v.push(row("xadd", &[0x0f, 0xc0], Modrm, n, B));
    v.push(row("xadd", &[0x0f, 0xc1], Modrm, n, V));
    v.push(row("movnti", &[0x0f, 0xc3], ModrmMem, n, V));
    v.push(row("bswap", &[0x0f, 0xc8], PlusR, n, V));
    // ---- SSE subset
    v.push(sse("movups", 0, &[0x0f, 0x10], Modrm, n));
    v.push(sse("movups", 0, &[0x0f, 0x11], Modrm, n));
    v.push(sse("movsd_sse", 0xf2, &[0x0f, 0x10], Modrm, n));
    v.push(sse("movsd_sse", 0xf2, &[0x0f, 0x11], Modrm, n));
    v.push(sse("movlpd", 0x66, &[0x0f, 0x12], ModrmMem, n));
    v.push(sse("movlpd", 0x66, &[0x0f, 0x13], ModrmMem, n));
    v.push(sse("movhpd", 0x66, &[0x0f, 0x16], ModrmMem, n));
    v.push(sse("movhpd", 0x66, &[0x0f, 0x17], ModrmMem, n));
    v.push(sse("movaps", 0, &[0x0f, 0x28], Modrm, n));
    v.push(sse("movaps", 0, &[0x0f, 0x29], Modrm, n));
    v.push(sse("movapd", 0x66, &[0x0f, 0x28], Modrm, n));
    v.push(sse("movapd", 0x66, &[0x0f, 0x29], Modrm, n));
    v.push(sse("punpcklbw", 0x66, &[0x0f, 0x60], Modrm, n));
    v.push(sse("punpcklwd", 0x66, &[0x0f, 0x61], Modrm, n));
    v.push(Row { size: Size::V, ..sse("movd", 0x66, &[0x0f, 0x6e], Modrm, n) });
    v.push(Row { size: Size::V, ..sse("movd", 0x66, &[0x0f, 0x7e], Modrm, n) });
    v.push(sse("movq", 0xf3, &[0x0f, 0x7e], Modrm, n));
    v.push(sse("movq", 0x66, &[0x0f, 0xd6], Modrm, n));
    v.push(sse("movdqa", 0x66, &[0x0f, 0x6f], Modrm, n));
    v.push(sse("movdqa", 0x66, &[0x0f, 0x7f], Modrm, n));
    v.push(sse("movdqu", 0xf3, &[0x0f, 0x6f], Modrm, n));
    v.push(sse("movdqu", 0xf3, &[0x0f, 0x7f], Modrm, n));
    v.push(sse("pshufd", 0x66, &[0x0f, 0x70], Modrm, Ib));
    v.push(sse("psrldq", 0x66, &[0x0f, 0x73], GrpReg(3), Ib));
    v.push(sse("pslldq", 0x66, &[0x0f, 0x73], GrpReg(7), Ib));
    v.push(sse("pcmpeqb", 0x66, &[0x0f, 0x74], Modrm, n));
    v.push(sse("pcmpeqd", 0x66, &[0x0f, 0x76], Modrm, n));
    v.push(sse("paddq", 0x66, &[0x0f, 0xd4], Modrm, n));
    v.push(sse("pmovmskb", 0x66, &[0x0f, 0xd7], ModrmReg, n));
    v.push(sse("pminub", 0x66, &[0x0f, 0xda], Modrm, n));
    v.push(sse("por", 0x66, &[0x0f, 0xeb], Modrm, n));
    v.push(sse("pxor", 0x66, &[0x0f, 0xef], Modrm, n));
    v.push(sse("psubb", 0x66, &[0x0f, 0xf8], Modrm, n));
    v.push(sse("psubq", 0x66, &[0x0f, 0xfb], Modrm, n));
    // MMX forms of the same opcodes (no mandatory prefix): the dispatcher accepts the mnemonic, the register table does not
    v.push(sse("paddq_mmx", 0, &[0x0f, 0xd4], Modrm, n));
    v.push(sse("pxor_mmx", 0, &[0x0f, 0xef], Modrm, n));
    v.push(sse("movq_mmx", 0, &[0x0f, 0x6f], Modrm, n));
    v
}

/// the ModRM/SIB shapes enumerated for every row with a ModRM byte
pub const SHAPES: usize = 14;

#[derive(Clone, Debug, Default)]
pub struct Enc {
    pub bytes: Vec<u8>,
    /// byte offset and width of a displacement that must be patched so that the address lands in the data region:
    /// (offset, rip_relative)
    pub fix_disp32: Option<(usize, bool)>,
    /// offset and width (bytes) of a moffs address
    pub fix_moffs: Option<(usize, usize)>,
}

fn imm_bytes(rng: &mut Rng, n: usize) -> Vec<u8> {
    let pool: [u64; 12] = [0, 1, 2, 0x7f, 0x80, 0xff, 0x7fff, 0x8000, 0xffff, 0x7fff_ffff, 0x8000_0000, 0xffff_ffff];
    let v: u64 = match rng.below(4) {
        0 => *rng.pick(&pool),
        1 => (*rng.pick(&pool)).wrapping_neg(),
        2 => rng.below(70),
        _ => rng.next(),
    };
    let v = if n == 8 && rng.chance(1, 2) { rng.next() } else { v };
    v.to_le_bytes()[..n].to_vec()
}

/// Assembles one encoding of `row`.
///   `opsz`: 0 default, 1 = 66 prefix, 2 = REX.W, 3 = 66 + REX.W
///   `rex_rxb`: the R X B bits (amd64 only); 8 = a bare REX prefix
///   `shape`: ModRM/SIB shape number (ignored for rows without ModRM)
///   `extra`: extra legacy prefixes placed first (67, segment overrides, f2/f3/f0)
pub fn assemble(row: &Row, amd64: bool, opsz: u8, rex_rxb: u8, shape: usize, extra: &[u8], rng: &mut Rng) -> Option<Enc> {
    if (row.only == 32 && amd64) || (row.only == 64 && !amd64) {
        return None;
    }
    let mut e = Enc::default();
    e.bytes.extend_from_slice(extra);
    if opsz & 1 != 0 {
        e.bytes.push(0x66);
    }
    // a mandatory prefix that is part of the opcode bytes (f3 90) stays where it is; SSE mandatory prefixes come last
    if row.mand != 0 {
        e.bytes.push(row.mand);
    }
    let w = opsz & 2 != 0;
    let a16 = !amd64 && extra.contains(&0x67);
    // ModRM construction
    let mut rex = 0u8;
    if amd64 {
        if w {
            rex |= 0x48;
        }
        if rex_rxb & 0xf != 0 {
            // bit 3 of `rex_rxb` asks for a REX prefix even when R, X and B are clear (spl/bpl/sil/dil)
            rex |= 0x40 | (rex_rxb & 7);
        }
    } else if w || rex_rxb != 0 {
        return None;
    }
    let mut tail: Vec<u8> = Vec::new();
    let mut disp32_at: Option<(usize, bool)> = None; // offset inside tail
    let has_modrm = !matches!(row.form, Form::PlusR | Form::Plain | Form::Rel8 | Form::Rel32 | Form::Moffs);
    if has_modrm {
        let (reg_field, mem_only, reg_only) = match row.form {
            Form::Modrm => (rng.below(8) as u8, false, false),
            Form::ModrmMem => (rng.below(8) as u8, true, false),
            Form::ModrmReg => (rng.below(8) as u8, false, true),
            Form::Grp(d) => (d, false, false),
            Form::GrpMem(d) => (d, true, false),
            Form::GrpReg(d) => (d, false, true),
            _ => unreachable!(),
        };
        let mut shape = shape % SHAPES;
        if mem_only && shape < 2 {
            shape += 2;
        }
        if reg_only {
            shape %= 2;
        }
        let rm_rand = rng.below(8) as u8;
        let modrm = |md: u8, rm: u8| (md << 6) | (reg_field << 3) | rm;
        let d8 = rng.next() as u8;
        let d32: u32 = match rng.below(4) {
            0 => rng.below(0x100) as u32,
            1 => (rng.below(0x100) as u32).wrapping_neg(),
            2 => 0x7fff_fff0u32.wrapping_add(rng.below(0x20) as u32),
            _ => rng.next() as u32,
        };
        if a16 {
            // 16-bit addressing (x86 mode with 67): no SIB; mod=0 rm=6 is disp16
            match shape {
                0 => tail.push(modrm(3, rm_rand)),
                1 => tail.push(modrm(3, reg_field)),
                2 | 3 | 4 | 5 => {
                    let rm = if rm_rand == 6 { 7 } else { rm_rand };
                    tail.push(modrm(0, rm));
                }
                6 | 7 | 8 => {
                    tail.push(modrm(1, rm_rand));
                    tail.push(d8);
                }
                9 | 10 | 11 => {
                    tail.push(modrm(2, rm_rand));
                    tail.extend_from_slice(&(d32 as u16).to_le_bytes());
                }
                _ => {
                    tail.push(modrm(0, 6));
                    tail.extend_from_slice(&(d32 as u16).to_le_bytes());
                }
            }
        } else {
            let sib = |scale: u8, index: u8, base: u8| (scale << 6) | (index << 3) | base;
            let scale = rng.below(4) as u8;
            let idx = {
                let i = rng.below(8) as u8;
                if i == 4 && rex_rxb & 2 == 0 { 1 } else { i }
            };
            match shape {
                0 => tail.push(modrm(3, rm_rand)),
                1 => tail.push(modrm(3, reg_field)),
                2 => {
                    let rm = match rm_rand { 4 => 0, 5 => 1, r => r };
                    tail.push(modrm(0, rm));
                }
                3 => {
                    let rm = if rm_rand == 4 { 3 } else { rm_rand };
                    tail.push(modrm(1, rm));
                    tail.push(d8);
                }
                4 => {
                    let rm = if rm_rand == 4 { 6 } else { rm_rand };
                    tail.push(modrm(2, rm));
                    tail.extend_from_slice(&d32.to_le_bytes());
                }
                5 => {
                    // rip-relative (amd64) / absolute disp32 (x86)
                    tail.push(modrm(0, 5));
                    disp32_at = Some((tail.len(), amd64));
                    tail.extend_from_slice(&[0, 0, 0, 0]);
                }
                6 => {
                    let base = if rm_rand == 5 { 3 } else { rm_rand };
                    tail.push(modrm(0, 4));
                    tail.push(sib(scale, idx, base));
                }
                7 => {
                    tail.push(modrm(1, 4));
                    tail.push(sib(scale, idx, rm_rand));
                    tail.push(d8);
                }
                8 => {
                    // [rsp + disp8] (or r12 with REX.B): index field 4 = none
                    tail.push(modrm(1, 4));
                    tail.push(sib(scale, 4, 4));
                    tail.push(d8);
                }
                9 => {
                    // no base: index*scale + disp32
                    tail.push(modrm(0, 4));
                    tail.push(sib(scale, idx, 5));
                    tail.extend_from_slice(&(rng.below(0x40) as u32).to_le_bytes());
                }
                10 => {
                    // absolute disp32 through SIB
                    tail.push(modrm(0, 4));
                    tail.push(sib(0, 4, 5));
                    disp32_at = Some((tail.len(), false));
                    tail.extend_from_slice(&[0, 0, 0, 0]);
                }
                11 => {
                    tail.push(modrm(2, 4));
                    tail.push(sib(scale, idx, rm_rand));
                    tail.extend_from_slice(&d32.to_le_bytes());
                }
                12 => {
                    // [rbp/r13 + disp8] : mod=1 rm=5
                    tail.push(modrm(1, 5));
                    tail.push(d8);
                }
                _ => {
                    // base == index
                    let r = if rm_rand == 4 || rm_rand == 5 { 2 } else { rm_rand };
                    tail.push(modrm(0, 4));
                    tail.push(sib(scale, r, r));
                }
            }
        }
    }
    // opcode bytes: legacy-prefix-like first opcode bytes (f3 of pause) must precede REX
    let (pre, opc): (&[u8], &[u8]) = if row.op.len() > 1 && row.op[0] == 0xf3 { (&row.op[..1], &row.op[1..]) } else { (&[], row.op) };
    e.bytes.extend_from_slice(pre);
    if rex != 0 {
        e.bytes.push(rex);
    }
    let mut opc = opc.to_vec();
    if row.form == Form::PlusR {
        let r = rng.below(8) as u8;
        let l = opc.len();
        opc[l - 1] |= r;
    }
    e.bytes.extend_from_slice(&opc);
    let tail_at = e.bytes.len();
    e.bytes.extend_from_slice(&tail);
    if let Some((off, rip)) = disp32_at {
        e.fix_disp32 = Some((tail_at + off, rip));
    }
    // relative / moffs / immediates
    let op16 = if amd64 { opsz & 1 != 0 && !w } else { opsz & 1 != 0 };
    match row.form {
        Form::Rel8 => e.bytes.push(rng.next() as u8),
        Form::Rel32 => {
            let d: u32 = match rng.below(4) {
                0 => rng.below(0x100) as u32,
                1 => (rng.below(0x100) as u32).wrapping_neg(),
                2 => 0x7fff_fff0,
                _ => rng.next() as u32,
            };
            if op16 && !amd64 {
                e.bytes.extend_from_slice(&(d as u16).to_le_bytes());
            } else {
                e.bytes.extend_from_slice(&d.to_le_bytes());
            }
        }
        Form::Moffs => {
            let n = if amd64 { if extra.contains(&0x67) { 4 } else { 8 } } else if extra.contains(&0x67) { 2 } else { 4 };
            e.fix_moffs = Some((e.bytes.len(), n));
            e.bytes.extend_from_slice(&vec![0u8; n]);
        }
        _ => {}
    }
    match row.imm {
        Imm::None => {}
        Imm::Ib => e.bytes.extend(imm_bytes(rng, 1)),
        Imm::Iw => e.bytes.extend(imm_bytes(rng, 2)),
        Imm::Iz => e.bytes.extend(imm_bytes(rng, if op16 { 2 } else { 4 })),
        Imm::Iv => e.bytes.extend(imm_bytes(rng, if w && amd64 { 8 } else if op16 { 2 } else { 4 })),
    }
    if e.bytes.len() > 15 {
        return None;
    }
    Some(e)
}
