//! The *normalised operand description* of one x86 instruction, derived from capstone's detail (the decoding the
//! lifter itself uses).  Text form (one token per field, `|`-free):
//!
//!   <mnemonic> len=<n> asz=<address bytes> pfx=<-|rep|repne|lock[+...]> <operand>*
//!   operand := r:<regname> | i:<0xvalue as u64>:<bytes> | m:<bytes>:<seg|->:<base|->:<index|->:<scale>:<0xdisp as u64>
//!
//! The Lean specification `FalconModel/Isa/X86.lean` interprets exactly this text.
use falcon_capstone::capstone;
use falcon_capstone::capstone_sys::{x86_op_type, x86_reg};

#[derive(Clone, Debug, PartialEq)]
pub enum Opnd {
    Reg(String),
    Imm(u64, u8),
    Mem { size: u8, seg: Option<String>, base: Option<String>, index: Option<String>, scale: i32, disp: i64 },
}

#[derive(Clone, Debug)]
pub struct Desc {
    pub mnemonic: String,
    pub len: usize,
    pub addr_size: u8,
    pub rep: bool,
    pub repne: bool,
    pub lock: bool,
    pub ops: Vec<Opnd>,
    pub regs_read: Vec<String>,
    pub regs_write: Vec<String>,
}

pub struct Decoder {
    cs: capstone::Capstone,
    pub amd64: bool,
}

impl Decoder {
    pub fn new(amd64: bool) -> Decoder {
        let mode = if amd64 { capstone::CS_MODE_64 } else { capstone::CS_MODE_32 };
        let cs = capstone::Capstone::new(capstone::cs_arch::CS_ARCH_X86, mode).expect("capstone");
        cs.option(capstone::cs_opt_type::CS_OPT_DETAIL, capstone::cs_opt_value::CS_OPT_ON).unwrap();
        Decoder { cs, amd64 }
    }

    fn reg(&self, r: x86_reg) -> Option<String> {
        if r == x86_reg::X86_REG_INVALID {
            None
        } else {
            self.cs.reg_name(r as u32).map(|s| s.to_string())
        }
    }

    /// decodes the first instruction of `bytes`
    pub fn decode(&self, bytes: &[u8], addr: u64) -> Option<Desc> {
        let buf = self.cs.disasm(bytes, addr, 1).ok()?;
        let ins = buf.get(0)?;
        let det = ins.detail.as_ref()?;
        let x = match det.arch {
            capstone::DetailsArch::X86(x) => x,
            _ => return None,
        };
        let mut ops = Vec::new();
        for k in 0..(x.op_count as usize).min(8) {
            let o = x.operands[k];
            ops.push(match o.type_ {
                x86_op_type::X86_OP_REG => Opnd::Reg(self.reg(o.reg())?),
                x86_op_type::X86_OP_IMM => Opnd::Imm(o.imm() as u64, o.size),
                x86_op_type::X86_OP_MEM => {
                    let m = o.mem();
                    Opnd::Mem {
                        size: o.size,
                        seg: self.reg(m.segment),
                        base: self.reg(m.base),
                        index: self.reg(m.index),
                        scale: m.scale,
                        disp: m.disp,
                    }
                }
                _ => return None,
            });
        }
        // "rep stosb" / "lock add" / "repne scasb": the mnemonic proper is the last word
        let mnemonic = ins.mnemonic.split(' ').last().unwrap_or("").to_string();
        let has = |p: u8| x.prefix.contains(&p);
        let names = |v: &Vec<u32>| v.iter().filter_map(|r| self.cs.reg_name(*r).map(|s| s.to_string())).collect();
        Some(Desc {
            mnemonic,
            len: ins.size as usize,
            addr_size: x.addr_size,
            rep: has(0xf3),
            repne: has(0xf2),
            lock: has(0xf0),
            ops,
            regs_read: names(&det.regs_read),
            regs_write: names(&det.regs_write),
        })
    }
}

impl Desc {
    pub fn text(&self) -> String {
        let mut p = Vec::new();
        if self.rep {
            p.push("rep");
        }
        if self.repne {
            p.push("repne");
        }
        if self.lock {
            p.push("lock");
        }
        let pfx = if p.is_empty() { "-".to_string() } else { p.join("+") };
        let mut out = vec![self.mnemonic.clone(), format!("len={}", self.len), format!("asz={}", self.addr_size), format!("pfx={}", pfx)];
        let o = |x: &Option<String>| x.clone().unwrap_or_else(|| "-".to_string());
        for op in &self.ops {
            out.push(match op {
                Opnd::Reg(r) => format!("r:{}", r),
                Opnd::Imm(v, s) => format!("i:0x{:x}:{}", v, s),
                Opnd::Mem { size, seg, base, index, scale, disp } => {
                    format!("m:{}:{}:{}:{}:{}:0x{:x}", size, o(seg), o(base), o(index), scale, *disp as u64)
                }
            });
        }
        out.join(" ")
    }

    /// the shape of the instruction, used in class names: operand kinds and widths, plus the prefixes that change
    /// the meaning (rep, fs/gs override, address registers narrower than the mode's default)
    pub fn form_in(&self, amd64: bool) -> String {
        let mut parts = Vec::new();
        for op in &self.ops {
            parts.push(match op {
                Opnd::Reg(r) => match reg_info(r) {
                    Some((_, bits, off)) => {
                        if off == 8 {
                            "h8".to_string()
                        } else if bits == 128 {
                            "x128".to_string()
                        } else {
                            format!("r{}", bits)
                        }
                    }
                    None => format!("reg-{}", r),
                },
                Opnd::Imm(_, s) => format!("i{}", *s as u32 * 8),
                Opnd::Mem { size, .. } => format!("m{}", *size as u32 * 8),
            });
        }
        let mut s = if parts.is_empty() { "-".to_string() } else { parts.join(",") };
        if self.rep {
            s += "+rep";
        }
        if self.repne {
            s += "+repne";
        }
        let default_bytes = if amd64 { 8 } else { 4 };
        if self.addr_size != default_bytes {
            s += &format!("+a{}", self.addr_size as u32 * 8);
        }
        // flat model: cs/ds/es/ss overrides change nothing; fs/gs do
        let fsgs = self.ops.iter().any(|op| matches!(op, Opnd::Mem { seg: Some(sg), .. } if sg == "fs" || sg == "gs"));
        if fsgs {
            s += "+fsgs";
        }
        s
    }
}

/// (hardware number of the full register, bits, bit offset) for the general registers and xmm (bits = 128, number = index)
pub fn reg_info(name: &str) -> Option<(usize, u32, u32)> {
    const R64: [&str; 16] = ["rax", "rcx", "rdx", "rbx", "rsp", "rbp", "rsi", "rdi", "r8", "r9", "r10", "r11", "r12", "r13", "r14", "r15"];
    const R32: [&str; 16] = ["eax", "ecx", "edx", "ebx", "esp", "ebp", "esi", "edi", "r8d", "r9d", "r10d", "r11d", "r12d", "r13d", "r14d", "r15d"];
    const R16: [&str; 16] = ["ax", "cx", "dx", "bx", "sp", "bp", "si", "di", "r8w", "r9w", "r10w", "r11w", "r12w", "r13w", "r14w", "r15w"];
    const R8: [&str; 16] = ["al", "cl", "dl", "bl", "spl", "bpl", "sil", "dil", "r8b", "r9b", "r10b", "r11b", "r12b", "r13b", "r14b", "r15b"];
    const H8: [&str; 4] = ["ah", "ch", "dh", "bh"];
    if let Some(i) = R64.iter().position(|x| *x == name) {
        return Some((i, 64, 0));
    }
    if let Some(i) = R32.iter().position(|x| *x == name) {
        return Some((i, 32, 0));
    }
    if let Some(i) = R16.iter().position(|x| *x == name) {
        return Some((i, 16, 0));
    }
    if let Some(i) = R8.iter().position(|x| *x == name) {
        return Some((i, 8, 0));
    }
    if let Some(i) = H8.iter().position(|x| *x == name) {
        return Some((i, 8, 8));
    }
    if let Some(n) = name.strip_prefix("xmm") {
        if let Ok(i) = n.parse::<usize>() {
            if i < 32 {
                return Some((i, 128, 0));
            }
        }
    }
    None
}
