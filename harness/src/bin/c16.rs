//! C16 — backing memory is a permissioned byte map under overlapping writes.
//! A request is one line holding a whole history; the grammar is documented in lean/Drivers/C16.lean.
//!
//!   be|le ; set <addr> <hex|-> <perm> ; set32 <addr> <value> ; get8 <addr> ; perm <addr> ; get <addr> <bits>
//!         ; get32 <addr> ; dump <addr> <count> ; sections
//!
//! Every operation runs on the REAL `falcon::memory::backing::Memory` under `catch`; a panic of a mutating
//! operation leaves the Rust object in an unspecified state, so every later operation answers `skipped`.
use falcon::architecture::Endian;
use falcon::memory::backing::Memory;
use falcon::memory::MemoryPermissions;
use fvh::canon::{catch, const_str, err_str};
use fvh::{run_main, Emit, Rng, Tier};

const SEP: &str = " ; ";

fn parse_data(s: &str) -> Option<Vec<u8>> {
    if s == "-" {
        return Some(vec![]);
    }
    if s.len() % 2 != 0 {
        return None;
    }
    (0..s.len() / 2).map(|i| u8::from_str_radix(s.get(2 * i..2 * i + 2)?, 16).ok()).collect()
}

fn data_hex(d: &[u8]) -> String {
    d.iter().map(|b| format!("{:02x}", b)).collect()
}

fn sections_str(m: &Memory) -> String {
    if m.sections().is_empty() {
        return "-".to_string();
    }
    m.sections()
        .iter()
        .map(|(a, s)| format!("{}:{}:{}", a, s.permissions().bits(), data_hex(s.data())))
        .collect::<Vec<_>>()
        .join(",")
}

/// one operation on the real memory; `Err(())` = bad request
fn op_answer(m: &mut Memory, dead: &mut bool, op: &str) -> Result<String, ()> {
    let t: Vec<&str> = op.split(' ').collect();
    let num = |s: &str| s.parse::<u64>().map_err(|_| ());
    let skipped = || Ok("skipped".to_string());
    match t.as_slice() {
        ["set", a, d, p] => {
            let (a, d, p) = (num(a)?, parse_data(d).ok_or(())?, p.parse::<u32>().map_err(|_| ())?);
            let p = MemoryPermissions::from_bits(p).ok_or(())?;
            if *dead {
                return skipped();
            }
            Ok(match catch(|| m.set_memory(a, d, p)) {
                Some(()) => "ok".to_string(),
                None => {
                    *dead = true;
                    "panic".to_string()
                }
            })
        }
        ["set32", a, v] => {
            let (a, v) = (num(a)?, v.parse::<u32>().map_err(|_| ())?);
            if *dead {
                return skipped();
            }
            // set32 panics / returns Err before it mutates anything
            Ok(match catch(|| m.set32(a, v)) {
                Some(Ok(())) => "ok".to_string(),
                Some(Err(e)) => err_str(&e).to_string(),
                None => "panic".to_string(),
            })
        }
        ["get8", a] => {
            let a = num(a)?;
            if *dead {
                return skipped();
            }
            Ok(match catch(|| m.get8(a)) {
                Some(Some(b)) => format!("{:02x}", b),
                Some(None) => "none".to_string(),
                None => "panic".to_string(),
            })
        }
        ["perm", a] => {
            let a = num(a)?;
            if *dead {
                return skipped();
            }
            Ok(match catch(|| m.permissions(a)) {
                Some(Some(p)) => format!("{}", p.bits()),
                Some(None) => "none".to_string(),
                None => "panic".to_string(),
            })
        }
        ["get", a, bits] => {
            let (a, bits) = (num(a)?, bits.parse::<usize>().map_err(|_| ())?);
            if *dead {
                return skipped();
            }
            Ok(match catch(|| m.get(a, bits)) {
                Some(Some(c)) => const_str(&c),
                Some(None) => "none".to_string(),
                None => "panic".to_string(),
            })
        }
        ["get32", a] => {
            let a = num(a)?;
            if *dead {
                return skipped();
            }
            Ok(match catch(|| m.get32(a)) {
                Some(Some(v)) => format!("0x{:x}", v),
                Some(None) => "none".to_string(),
                None => "panic".to_string(),
            })
        }
        ["dump", a, n] => {
            let (a, n) = (num(a)?, num(n)?);
            if n > 0 && a.checked_add(n - 1).is_none() {
                return Err(());
            }
            if *dead {
                return skipped();
            }
            let r = catch(|| {
                let mut s = String::new();
                for i in 0..n {
                    let x = a + i;
                    match (m.get8(x), m.permissions(x)) {
                        (None, None) => s.push('.'),
                        (Some(b), Some(p)) => s.push_str(&format!("{:02x}{}", b, p.bits())),
                        _ => s.push('!'),
                    }
                }
                s
            });
            Ok(r.unwrap_or_else(|| "panic".to_string()))
        }
        ["sections"] => {
            if *dead {
                return skipped();
            }
            Ok(catch(|| sections_str(m)).unwrap_or_else(|| "panic".to_string()))
        }
        _ => Err(()),
    }
}

fn answer(line: &str) -> String {
    let mut it = line.split(SEP);
    let e = it.next().unwrap_or("");
    let endian = match e {
        "be" => Endian::Big,
        "le" => Endian::Little,
        _ => return "bad-request".to_string(),
    };
    let mut m = Memory::new(endian);
    let mut dead = false;
    let mut out = vec![e.to_string()];
    for op in it {
        match op_answer(&mut m, &mut dead, op) {
            Ok(s) => out.push(s),
            Err(()) => out.push("bad-request".to_string()),
        }
    }
    out.join(SEP)
}

// ---------------------------------------------------------------- generators

fn rand_data(rng: &mut Rng, len: u64) -> String {
    if len == 0 {
        return "-".to_string();
    }
    (0..len).map(|_| format!("{:02x}", rng.below(256))).collect()
}

/// shape of a `set` against the sections present before it (computed on the real memory's own section
/// list): does it overlap at least two sections, or fall strictly inside one (a split)?
fn set_shape(m: &Memory, a: u64, len: u64) -> bool {
    let (a, e) = (a as u128, a as u128 + len as u128);
    let mut overlapped = 0;
    let mut split = false;
    for (k, s) in m.sections() {
        let (k, ke) = (*k as u128, *k as u128 + s.len() as u128);
        if k < e && a < ke && len > 0 {
            overlapped += 1;
        }
        if k < a && e < ke {
            split = true;
        }
    }
    overlapped >= 2 || split
}

struct Hist {
    ops: Vec<String>,
    shadow: Memory, // the real memory, advanced alongside, only to classify shapes and pick boundaries
    shadow_dead: bool,
    nontrivial: bool,
    empty: bool,
    top: bool,
    over: bool,
}

impl Hist {
    fn new(e: &str) -> Hist {
        Hist {
            ops: vec![e.to_string()],
            shadow: Memory::new(if e == "be" { Endian::Big } else { Endian::Little }),
            shadow_dead: false,
            nontrivial: false,
            empty: false,
            top: false,
            over: false,
        }
    }
    fn set(&mut self, a: u64, data: String, p: u64) {
        let len = if data == "-" { 0 } else { (data.len() / 2) as u64 };
        let end = a as u128 + len as u128;
        if end == 1u128 << 64 {
            self.top = true;
        }
        if end > 1u128 << 64 {
            self.over = true;
        }
        if len == 0 {
            self.empty = true;
        }
        if !self.shadow_dead {
            if set_shape(&self.shadow, a, len) {
                self.nontrivial = true;
            }
            let d = parse_data(&data).unwrap();
            let perms = MemoryPermissions::from_bits(p as u32).unwrap();
            let sh = &mut self.shadow;
            if catch(|| sh.set_memory(a, d, perms)).is_none() {
                self.shadow_dead = true;
            }
        }
        self.ops.push(format!("set {} {} {}", a, data, p));
    }
    fn set32(&mut self, a: u64, v: u32) {
        if !self.shadow_dead {
            let sh = &mut self.shadow;
            let _ = catch(|| sh.set32(a, v));
        }
        self.ops.push(format!("set32 {} {}", a, v));
    }
    fn op(&mut self, s: String) {
        self.ops.push(s);
    }
    fn boundaries(&self) -> Vec<u64> {
        let mut v = vec![];
        for (k, s) in self.shadow.sections() {
            v.push(*k);
            v.push(k.wrapping_add(s.len() as u64));
        }
        v
    }
    fn class(&self, base: &str) -> String {
        let mut c = base.to_string();
        c.push_str(if self.nontrivial { "/nt" } else { "/plain" });
        if self.empty {
            c.push_str("/empty");
        }
        if self.top {
            c.push_str("/top");
        }
        if self.over {
            c.push_str("/over");
        }
        c
    }
    fn emit(self, base: &str, emit: &mut Emit) {
        let c = self.class(base);
        emit.case(&c, self.ops.join(SEP));
    }
}

const GET_BITS: [u64; 14] = [8, 16, 24, 32, 40, 48, 64, 72, 128, 0, 4, 12, 33, 256];

/// reads over the whole window: dump, a `get` of several widths and a `get32` at every address, the sections
fn full_reads(h: &mut Hist, lo: u64, count: u64, rng: &mut Rng, dense: bool) {
    h.op(format!("dump {} {}", lo, count));
    h.op("sections".to_string());
    for i in 0..count {
        let a = lo + i;
        if dense || rng.chance(1, 4) {
            h.op(format!("get32 {}", a));
            let bits = if dense { [16u64, 32, 24][(i % 3) as usize] } else { *rng.pick(&GET_BITS) };
            h.op(format!("get {} {}", a, bits));
        }
    }
}

fn random_history(rng: &mut Rng, emit: &mut Emit) {
    let e = if rng.chance(1, 2) { "be" } else { "le" };
    let mut h = Hist::new(e);
    // the window: 128 addresses, low, at a large base, or ending at the top of the address space
    let kind = rng.below(10);
    let (lo, base): (u64, &str) = match kind {
        0..=4 => (rng.below(64), "low"),
        5..=6 => (0x4000_0000_0000_0000u64 + rng.below(1 << 20), "mid"),
        7 => (u64::MAX - 127 - 64, "hi"),    // never reaches the last 64 bytes... unless lengths do
        _ => (u64::MAX - 127, "topwin"),     // window ends with the last byte of the address space
    };
    let win = 128u64;
    let nsets = 1 + rng.below(30);
    let max_len = *rng.pick(&[4u64, 8, 16, 40, 40]);
    for _ in 0..nsets {
        // address: random in the window, or on/next to a boundary of an existing section
        let bs = h.boundaries();
        let a = if !bs.is_empty() && rng.chance(2, 5) {
            let b = *rng.pick(&bs);
            match rng.below(3) {
                0 => b,
                1 => b.wrapping_add(1),
                _ => b.wrapping_sub(1),
            }
        } else {
            lo + rng.below(win)
        };
        let a = a.clamp(lo, lo + (win - 1));
        let mut len = if rng.chance(1, 12) { 0 } else { rng.below(max_len + 1) };
        // end on an existing boundary now and then (adjacent / exactly covering regions)
        if !bs.is_empty() && rng.chance(1, 4) {
            let b = *rng.pick(&bs);
            if b > a && b - a <= 48 {
                len = b - a;
            }
        }
        // regions must be regions of the address space, except in the dedicated "over" histories
        let room = (u64::MAX - a) as u128 + 1; // bytes from a to the top
        if len as u128 > room && !(base == "topwin" && rng.chance(1, 20)) {
            len = room as u64;
        }
        // the last byte of the address space: only in `topwin` histories, and not always
        if base != "topwin" || rng.chance(2, 3) {
            if len as u128 == room {
                len -= 1;
            }
        }
        let data = rand_data(rng, len);
        h.set(a, data, rng.below(8));
        if rng.chance(1, 6) {
            let a32 = lo + rng.below(win);
            h.set32(a32, rng.next() as u32);
        }
        if rng.chance(1, 8) {
            let a = lo + rng.below(win);
            h.op(format!("get {} {}", a, rng.pick(&GET_BITS)));
        }
    }
    // reads: the whole window (and a margin below it when there is one)
    let margin = lo.min(8);
    full_reads(&mut h, lo - margin, margin + win, rng, false);
    h.emit(base, emit);
}

/// all histories of at most `k` regions inside a small window (every start, every length incl. 0),
/// followed by dense reads around the window
fn exhaustive(k: usize, w: u64, e: &str, emit: &mut Emit, rng: &mut Rng) {
    let base = 16u64;
    let mut regions = vec![];
    for a in 0..w {
        for len in 0..=(w - a) {
            regions.push((base + a, len));
        }
    }
    let mut idx = vec![0usize; k];
    loop {
        let mut h = Hist::new(e);
        for (j, &i) in idx.iter().enumerate() {
            let (a, len) = regions[i];
            let data: String = if len == 0 {
                "-".to_string()
            } else {
                (0..len).map(|t| format!("{:x}{:x}", j + 1, t + 1)).collect()
            };
            h.set(a, data, (j + 1) as u64);
        }
        full_reads(&mut h, base - 2, w + 4, rng, true);
        h.emit(&format!("exh{}", k), emit);
        // next tuple
        let mut p = k;
        loop {
            if p == 0 {
                return;
            }
            p -= 1;
            idx[p] += 1;
            if idx[p] < regions.len() {
                break;
            }
            idx[p] = 0;
        }
    }
}

/// set32/get32 focus: a few regions, then 32-bit stores at every offset and a full read-back
fn word_history(rng: &mut Rng, emit: &mut Emit) {
    let e = if rng.chance(1, 2) { "be" } else { "le" };
    let mut h = Hist::new(e);
    let lo = 32 + rng.below(32);
    for _ in 0..(1 + rng.below(4)) {
        let a = lo + rng.below(24);
        let len = rng.below(14);
        let d = rand_data(rng, len);
        h.set(a, d, rng.below(8));
    }
    for _ in 0..(1 + rng.below(6)) {
        let a = lo - 4 + rng.below(44);
        let v = match rng.below(4) {
            0 => 0x0102_0304,
            1 => 0xffff_ffff,
            2 => 0x8000_0001,
            _ => rng.next() as u32,
        };
        h.set32(a, v);
        h.op(format!("get32 {}", a));
        h.op(format!("get {} 32", a));
    }
    full_reads(&mut h, lo - 6, 52, rng, false);
    h.emit("word", emit);
}

fn generate(tier: Tier, rng: &mut Rng, emit: &mut Emit) {
    // fixed witnesses of the two defects the design anticipated (kept after the repair as regression cases)
    emit.case("witness/get-past-end", "be ; set 16 aabbccdd 5 ; get 16 32 ; get 18 32 ; get 19 16 ; get 15 16 ; get 18 24".to_string());
    emit.case("witness/empty-set", "le ; set 16 aabbccdd 5 ; set 16 - 1 ; dump 14 8 ; sections ; set 18 - 1 ; dump 14 8 ; sections ; set 20 - 2 ; dump 14 8 ; sections".to_string());
    // short witnesses of the known finding (a region containing the byte 2^64-1), one per operation kind, so that the
    // orchestrator's minimiser starts from two-operation histories
    for op in [
        "get8 18446744073709551614",
        "perm 18446744073709551615",
        "get 18446744073709551614 16",
        "get32 18446744073709551612",
        "set32 18446744073709551612 1",
        "set 18446744073709551600 aa 1",
        "dump 18446744073709551610 6",
    ] {
        emit.case("witness/top", format!("be ; set 18446744073709551612 4e0c0d0e 3 ; {}", op));
    }
    let (nrand, nword) = match tier {
        Tier::Quick => (14_000, 3_000),
        Tier::Thorough => (26_000, 5_000), // per shard; ./check runs 8 shards (larger tiers choke the orchestrator's pipes)
    };
    // small-scope enumeration: quick = all histories of <= 2 regions in a 6-byte window (both endiannesses)
    // and of 3 regions in a 4-byte window; thorough adds 3 regions in the 6-byte window
    for e in ["be", "le"] {
        exhaustive(1, 6, e, emit, rng);
        exhaustive(2, 6, e, emit, rng);
    }
    match tier {
        Tier::Quick => exhaustive(3, 4, if rng.chance(1, 2) { "be" } else { "le" }, emit, rng),
        Tier::Thorough => {
            // the shards all enumerate the same set; alternate the endianness by seed parity
            let e = if rng.0 & 1 == 0 { "be" } else { "le" };
            exhaustive(3, 6, e, emit, rng)
        }
    }
    for _ in 0..nword {
        word_history(rng, emit);
    }
    for _ in 0..nrand {
        random_history(rng, emit);
    }
}

fn main() {
    run_main(&generate, &answer);
}
