//! C15 — CFG construction and editing keep graphs consistent and meaning intact.
//! A request is one history over three graphs g0 g1 g2 (all start as `ControlFlowGraph::new()`); the
//! vocabulary and the answer format are documented in lean/Drivers/C15.lean.  Everything printed about a
//! graph is obtained through falcon's public API (the private counters by probing a clone).
use falcon::il::{Block, ControlFlowGraph, Expression as E, Operation};
use falcon::translator::BlockTranslationResult;
use fvh::canon::catch;
use fvh::fil::{blk_str, edge_str, expr_str, op_str, read_expr, read_op};
use fvh::genil::{gen_expr, gen_op, GenCfg};
use fvh::sx::parse_all;
use fvh::{run_main, Emit, Rng, Tier};
use std::collections::{BTreeSet, HashSet};

const K: usize = 5;

// ---------------------------------------------------------------- observation of a real graph

fn next_index(c: &ControlFlowGraph) -> usize {
    let mut k = c.clone();
    catch(move || k.new_block().map(|b| b.index()).unwrap_or(usize::MAX)).unwrap_or(usize::MAX)
}

fn next_temp(c: &ControlFlowGraph) -> u64 {
    let mut k = c.clone();
    let s = k.temp(1);
    s.name().trim_start_matches("temp_").parse().unwrap_or(u64::MAX)
}

fn next_instr(b: &Block) -> usize {
    let mut k = b.clone();
    k.nop();
    k.instructions().last().map(|i| i.index()).unwrap_or(usize::MAX)
}

fn opt(x: Option<usize>) -> String {
    x.map(|v| v.to_string()).unwrap_or_else(|| "-".to_string())
}

fn nats(xs: &[usize]) -> String {
    xs.iter().map(|x| format!(" {}", x)).collect::<String>()
}

fn dump(c: &ControlFlowGraph) -> String {
    let idxs: Vec<usize> = c.blocks().iter().map(|b| b.index()).collect();
    let mut parts = vec!["(cfg".to_string(), opt(c.entry()), opt(c.exit()), next_index(c).to_string(), next_temp(c).to_string()];
    for b in c.blocks() {
        parts.push(blk_str(b, &idxs, Some(next_instr(b))));
    }
    for e in c.edges() {
        parts.push(edge_str(e));
    }
    for i in &idxs {
        let s = c.successor_indices(*i).unwrap_or_default();
        let p = c.predecessor_indices(*i).unwrap_or_default();
        parts.push(format!("(q {} (s{}) (p{}))", i, nats(&s), nats(&p)));
    }
    parts.join(" ") + ")"
}

/// the consistency conditions of the property, evaluated on the real graph
fn props(c: &ControlFlowGraph) -> String {
    let mut bad: Vec<&str> = Vec::new();
    let idxs: Vec<usize> = c.blocks().iter().map(|b| b.index()).collect();
    let iset: BTreeSet<usize> = idxs.iter().cloned().collect();
    if iset.len() != idxs.len() {
        bad.push("dup-block");
    }
    let keys: Vec<(usize, usize)> = c.edges().iter().map(|e| (e.head(), e.tail())).collect();
    let kset: BTreeSet<(usize, usize)> = keys.iter().cloned().collect();
    if kset.len() != keys.len() {
        bad.push("dup-edge");
    }
    if !keys.iter().all(|(h, t)| c.block(*h).is_ok() && c.block(*t).is_ok()) {
        bad.push("edge-dangling");
    }
    let ni = next_index(c);
    if !idxs.iter().all(|i| *i < ni) {
        bad.push("index>=next");
    }
    let block_ok = |b: &Block| {
        let is: Vec<usize> = b.instructions().iter().map(|i| i.index()).collect();
        let s: BTreeSet<usize> = is.iter().cloned().collect();
        let n = next_instr(b);
        s.len() == is.len() && is.iter().all(|i| *i < n)
    };
    if !c.blocks().iter().all(|b| block_ok(b)) {
        bad.push("instr-index");
    }
    if let Some(e) = c.entry() {
        if c.block(e).is_err() {
            bad.push("entry-dangling");
        }
    }
    if let Some(e) = c.exit() {
        if c.block(e).is_err() {
            bad.push("exit-dangling");
        }
    }
    // predecessor / successor queries against the edge set
    let mut q_ok = true;
    for i in &idxs {
        let s: Vec<usize> = keys.iter().filter(|(h, _)| h == i).map(|(_, t)| *t).collect();
        let p: Vec<usize> = keys.iter().filter(|(_, t)| t == i).map(|(h, _)| *h).collect();
        let mut ps = p.clone();
        ps.sort();
        q_ok &= c.successor_indices(*i).ok() == Some(s.clone()) && c.predecessor_indices(*i).ok() == Some(ps.clone());
        q_ok &= c.edges_out(*i).map(|v| v.iter().map(|e| (e.head(), e.tail())).collect::<Vec<_>>()).ok()
            == Some(s.iter().map(|t| (*i, *t)).collect());
        q_ok &= c.edges_in(*i).map(|v| v.iter().map(|e| (e.head(), e.tail())).collect::<Vec<_>>()).ok()
            == Some(ps.iter().map(|h| (*h, *i)).collect());
    }
    if !q_ok {
        bad.push("query-mismatch");
    }
    if bad.is_empty() {
        "wf".to_string()
    } else {
        format!("bad:{}", bad.join(","))
    }
}

// ---------------------------------------------------------------- bounded languages (search support)

fn fnv(s: &str) -> u64 {
    let mut h: u64 = 0xcbf29ce484222325;
    for b in s.as_bytes() {
        h = (h ^ (*b as u64)).wrapping_mul(0x100000001b3);
    }
    h
}

type Item = (usize, usize, Vec<u64>);

fn explore(c: &ControlFlowGraph) -> Vec<Item> {
    let en = match c.entry() {
        Some(e) if c.block(e).is_ok() => e,
        _ => return Vec::new(),
    };
    let start: Item = (en, 0, Vec::new());
    let mut seen: HashSet<Item> = HashSet::new();
    seen.insert(start.clone());
    let mut work = vec![start];
    while let Some((b, pos, w)) = work.pop() {
        let blk = match c.block(b) {
            Ok(x) => x,
            Err(_) => continue,
        };
        let mut succ: Vec<Item> = Vec::new();
        if pos < blk.instructions().len() {
            if w.len() < K {
                let mut w2 = w.clone();
                w2.push(fnv(&format!("o{}", op_str(blk.instructions()[pos].operation()))));
                succ.push((b, pos + 1, w2));
            }
        } else {
            for e in c.edges_out(b).unwrap_or_default() {
                match e.condition() {
                    None => succ.push((e.tail(), 0, w.clone())),
                    Some(g) => {
                        if w.len() < K {
                            let mut w2 = w.clone();
                            w2.push(fnv(&format!("g{}", expr_str(g))));
                            succ.push((e.tail(), 0, w2));
                        }
                    }
                }
            }
        }
        for s in succ {
            if seen.insert(s.clone()) {
                work.push(s);
            }
        }
    }
    seen.into_iter().collect()
}

fn digest(words: HashSet<Vec<u64>>) -> String {
    let mut sum: u64 = 0;
    for w in &words {
        let mut h: u64 = 0xcbf29ce484222325;
        for s in w {
            h = (h ^ s).wrapping_mul(0x100000001b3);
        }
        sum = sum.wrapping_add(h);
    }
    format!("{}.{:x}", words.len(), sum)
}

fn lang(c: &ControlFlowGraph) -> String {
    digest(explore(c).into_iter().map(|(_, _, w)| w).collect())
}

fn lang_ee(c: &ControlFlowGraph) -> String {
    let (ex, n) = match c.exit().and_then(|x| c.block(x).ok().map(|b| (x, b.instructions().len()))) {
        Some(p) => p,
        None => return digest(HashSet::new()),
    };
    digest(explore(c).into_iter().filter(|(b, p, _)| *b == ex && *p == n).map(|(_, _, w)| w).collect())
}

// ---------------------------------------------------------------- the operations

fn gix(s: &str) -> Option<usize> {
    match s {
        "g0" => Some(0),
        "g1" => Some(1),
        "g2" => Some(2),
        _ => None,
    }
}

fn push_op(b: &mut Block, op: Operation) {
    match op {
        Operation::Assign { dst, src } => b.assign(dst, src),
        Operation::Store { index, src } => b.store(index, src),
        Operation::Load { dst, index } => b.load(dst, index),
        Operation::Branch { target } => b.branch(target),
        Operation::Intrinsic { intrinsic } => b.intrinsic(intrinsic),
        Operation::Nop { .. } => b.nop(),
    }
}

fn unit(r: Result<(), falcon::Error>) -> String {
    match r {
        Ok(()) => "ok".to_string(),
        Err(e) => fvh::canon::err_str(&e).to_string(),
    }
}

/// applies one operation to the real graphs; returns `<result>|<properties>|<dump>`
fn apply(gs: &mut Vec<ControlFlowGraph>, op: &str) -> String {
    let bad = "bad-request".to_string();
    let xs = match parse_all(op) {
        Some(xs) => xs,
        None => return bad,
    };
    let head = xs.first().and_then(|x| x.atom()).unwrap_or("").to_string();
    let g = match xs.get(1).and_then(|x| x.atom()).and_then(gix) {
        Some(g) => g,
        None => return bad,
    };
    let snapshot = gs[g].clone();
    let args = &xs[2..];
    let mut extra_lang = false;
    let mut extra_ee = false;
    // the call itself, under catch_unwind
    let res: Option<String> = match (head.as_str(), args) {
        ("new_block", []) => {
            let c = &mut gs[g];
            catch(move || match c.new_block() {
                Ok(b) => format!("ok:{}", b.index()),
                Err(e) => fvh::canon::err_str(&e).to_string(),
            })
        }
        ("uedge", [h, t]) => match (h.usize(), t.usize()) {
            (Some(h), Some(t)) => {
                let c = &mut gs[g];
                catch(move || unit(c.unconditional_edge(h, t)))
            }
            _ => return bad,
        },
        ("cedge", [h, t, e]) => match (h.usize(), t.usize(), read_expr(e)) {
            (Some(h), Some(t), Some(e)) => {
                let c = &mut gs[g];
                catch(move || unit(c.conditional_edge(h, t, e)))
            }
            _ => return bad,
        },
        ("entry", [i]) => match i.usize() {
            Some(i) => {
                let c = &mut gs[g];
                catch(move || unit(c.set_entry(i)))
            }
            None => return bad,
        },
        ("exit", [i]) => match i.usize() {
            Some(i) => {
                let c = &mut gs[g];
                catch(move || unit(c.set_exit(i)))
            }
            None => return bad,
        },
        ("merge", []) => {
            extra_lang = true;
            let c = &mut gs[g];
            catch(move || unit(c.merge()))
        }
        ("append", [h]) => match h.atom().and_then(gix) {
            Some(h) => {
                let d = gs[h].clone();
                let c = &mut gs[g];
                let r = catch(move || unit(c.append(&d)));
                extra_ee = r.as_deref() == Some("ok");
                r
            }
            None => return bad,
        },
        ("insert", [h]) => match h.atom().and_then(gix) {
            Some(h) => {
                let d = gs[h].clone();
                let c = &mut gs[g];
                catch(move || match c.insert(&d) {
                    Ok((en, ex)) => format!("ok:{},{}", en, ex),
                    Err(e) => fvh::canon::err_str(&e).to_string(),
                })
            }
            None => return bad,
        },
        ("op", [b, o]) => match (b.usize(), read_op(o)) {
            (Some(b), Some(o)) => {
                let c = &mut gs[g];
                catch(move || unit(c.block_mut(b).map(|blk| push_op(blk, o))))
            }
            _ => return bad,
        },
        ("bappend", [b, h, j]) => match (b.usize(), h.atom().and_then(gix), j.usize()) {
            (Some(b), Some(h), Some(j)) => {
                let d = gs[h].clone();
                let c = &mut gs[g];
                catch(move || {
                    unit(d.block(j).map(|o| o.clone()).and_then(|o| c.block_mut(b).map(|blk| blk.append(&o))))
                })
            }
            _ => return bad,
        },
        ("rmins", [b, i]) => match (b.usize(), i.usize()) {
            (Some(b), Some(i)) => {
                let c = &mut gs[g];
                catch(move || unit(c.block_mut(b).and_then(|blk| blk.remove_instruction(i))))
            }
            _ => return bad,
        },
        ("temp", [n]) => match n.usize() {
            Some(n) => {
                let c = &mut gs[g];
                catch(move || {
                    let s = c.temp(n);
                    format!("ok:{}:{}", s.name(), s.bits())
                })
            }
            None => return bad,
        },
        ("blockify", hs) => {
            let mut instrs: Vec<(u64, ControlFlowGraph)> = Vec::new();
            for (i, h) in hs.iter().enumerate() {
                match h.atom().and_then(gix) {
                    Some(h) => instrs.push((i as u64, gs[h].clone())),
                    None => return bad,
                }
            }
            let r = catch(move || BlockTranslationResult::new(instrs, 0, 0, Vec::new()).blockify());
            match r {
                Some(Ok(c)) => {
                    gs[g] = c;
                    extra_lang = true;
                    Some("ok".to_string())
                }
                Some(Err(e)) => Some(fvh::canon::err_str(&e).to_string()),
                None => None,
            }
        }
        _ => return bad,
    };
    let res = match res {
        Some(r) => r,
        None => {
            gs[g] = snapshot; // state after an unwinding `&mut self` call is unspecified: restore
            "panic".to_string()
        }
    };
    let c = &gs[g];
    let mut p = props(c);
    if extra_lang {
        p += &format!(" lang={}", lang(c));
    }
    if extra_ee {
        p += &format!(" ee={}", lang_ee(c));
    }
    format!("{}|{}|{}", res, p, dump(c))
}

fn answer(line: &str) -> String {
    let mut gs = vec![ControlFlowGraph::new(), ControlFlowGraph::new(), ControlFlowGraph::new()];
    let outs: Vec<String> = line.split(" ; ").map(|op| apply(&mut gs, op)).collect();
    outs.join(" ; ")
}

// ---------------------------------------------------------------- generators

/// a history under construction: the text, the real graphs it produced so far, and the shape flags
struct Hist {
    ops: Vec<String>,
    gs: Vec<ControlFlowGraph>,
    merged: bool,
    appended: bool,
    inserted: bool,
    failed: bool,
}

impl Hist {
    fn new() -> Hist {
        Hist {
            ops: Vec::new(),
            gs: vec![ControlFlowGraph::new(), ControlFlowGraph::new(), ControlFlowGraph::new()],
            merged: false,
            appended: false,
            inserted: false,
            failed: false,
        }
    }
    fn blocks(&self, g: usize) -> Vec<usize> {
        self.gs[g].blocks().iter().map(|b| b.index()).collect()
    }
    fn push(&mut self, op: String) {
        let g = op.split(' ').nth(1).and_then(gix).unwrap_or(0);
        let before = self.gs[g].blocks().len();
        let before_all: Vec<usize> = self.gs.iter().map(|c| c.blocks().len()).collect();
        let src_blocks = op.split(' ').nth(2).and_then(gix).map(|h| self.gs[h].blocks().len()).unwrap_or(0);
        let r = catch(|| apply(&mut self.gs, &op)).unwrap_or_else(|| "panic".to_string());
        let ok = r.starts_with("ok");
        if !ok {
            self.failed = true;
        }
        if op.starts_with("merge") && self.gs[g].blocks().len() < before {
            self.merged = true;
        }
        if op.starts_with("append") && ok && src_blocks >= 2 {
            self.appended = true;
        }
        if op.starts_with("insert") && ok && src_blocks >= 2 {
            self.inserted = true;
        }
        if op.starts_with("blockify") && ok {
            let srcs: Vec<usize> = op.split(' ').skip(2).filter_map(gix).map(|h| before_all[h]).collect();
            if srcs.iter().any(|n| *n >= 2) {
                self.appended = true;
            }
            if self.gs[g].blocks().len() < 1 + srcs.iter().sum::<usize>() {
                self.merged = true;
            }
        }
        self.ops.push(op);
    }
    fn emit(self, scenario: &str, em: &mut Emit) {
        let b = |x: bool| if x { 1 } else { 0 };
        let cls = format!("{}/m{}a{}i{}e{}", scenario, b(self.merged), b(self.appended), b(self.inserted), b(self.failed));
        em.case(&cls, self.ops.join(" ; "));
    }
}

fn gen_cfg() -> GenCfg {
    GenCfg { expr_depth: 1, branch: true, ..GenCfg::default() }
}

fn guard(rng: &mut Rng, g: &GenCfg) -> String {
    let e: E = gen_expr(rng, g, 1, 1);
    expr_str(&e)
}

fn rand_op(rng: &mut Rng, g: &GenCfg) -> String {
    op_str(&gen_op(rng, g))
}

fn pick_block(rng: &mut Rng, h: &Hist, g: usize) -> usize {
    let bs = h.blocks(g);
    if !bs.is_empty() && rng.chance(9, 10) {
        *rng.pick(&bs)
    } else {
        rng.below(next_index(&h.gs[g]) as u64 + 2) as usize
    }
}

fn pick_graph(rng: &mut Rng) -> usize {
    match rng.below(10) {
        0..=4 => 0,
        5..=7 => 1,
        _ => 2,
    }
}

/// one random operation on graph `g`
fn random_op(rng: &mut Rng, gc: &GenCfg, h: &Hist, g: usize) -> String {
    let k = rng.below(100);
    let gn = format!("g{}", g);
    if k < 18 || h.blocks(g).is_empty() && k < 60 {
        return format!("new_block {}", gn);
    }
    if k < 32 {
        return format!("uedge {} {} {}", gn, pick_block(rng, h, g), pick_block(rng, h, g));
    }
    if k < 40 {
        return format!("cedge {} {} {} {}", gn, pick_block(rng, h, g), pick_block(rng, h, g), guard(rng, gc));
    }
    if k < 46 {
        return format!("entry {} {}", gn, pick_block(rng, h, g));
    }
    if k < 52 {
        return format!("exit {} {}", gn, pick_block(rng, h, g));
    }
    if k < 68 {
        return format!("op {} {} {}", gn, pick_block(rng, h, g), rand_op(rng, gc));
    }
    if k < 75 {
        return format!("merge {}", gn);
    }
    if k < 82 {
        return format!("append {} g{}", gn, rng.below(3));
    }
    if k < 87 {
        return format!("insert {} g{}", gn, rng.below(3));
    }
    if k < 92 {
        let o = rng.below(3) as usize;
        return format!("bappend {} {} g{} {}", gn, pick_block(rng, h, g), o, pick_block(rng, h, o));
    }
    if k < 97 {
        let b = pick_block(rng, h, g);
        let idx = match h.gs[g].block(b) {
            Ok(blk) if !blk.instructions().is_empty() && rng.chance(4, 5) => {
                blk.instructions()[rng.below(blk.instructions().len() as u64) as usize].index()
            }
            _ => rng.below(6) as usize,
        };
        return format!("rmins {} {} {}", gn, b, idx);
    }
    if rng.chance(1, 3) {
        let n = rng.below(4);
        let srcs: Vec<String> = (0..n).map(|_| format!(" g{}", rng.below(3))).collect();
        return format!("blockify {}{}", gn, srcs.concat());
    }
    format!("temp {} {}", gn, rng.range(1, 64))
}

fn gen_random(rng: &mut Rng, em: &mut Emit, n: usize) {
    let gc = gen_cfg();
    for _ in 0..n {
        let mut h = Hist::new();
        let len = rng.range(1, 40);
        for _ in 0..len {
            let g = pick_graph(rng);
            let op = random_op(rng, &gc, &h, g);
            h.push(op);
        }
        h.emit("random", em);
    }
}

/// graphs rich in unconditional chains, cycles off the entry, self-loops, diamonds; then merge
fn gen_chains(rng: &mut Rng, em: &mut Emit, n: usize) {
    let gc = gen_cfg();
    for _ in 0..n {
        let mut h = Hist::new();
        let nb = rng.range(2, 10) as usize;
        for _ in 0..nb {
            h.push("new_block g0".to_string());
        }
        for b in 0..nb {
            for _ in 0..rng.below(3) {
                h.push(format!("op g0 {} {}", b, rand_op(rng, &gc)));
            }
        }
        // a random permutation chained by unconditional edges, cut in a few places
        let mut perm: Vec<usize> = (0..nb).collect();
        for i in (1..nb).rev() {
            perm.swap(i, rng.below(i as u64 + 1) as usize);
        }
        for w in perm.windows(2) {
            if rng.chance(4, 5) {
                h.push(format!("uedge g0 {} {}", w[0], w[1]));
            }
        }
        // extra edges: back edges, self-loops, conditional branches
        for _ in 0..rng.below(4) {
            let (a, b) = (rng.below(nb as u64), rng.below(nb as u64));
            match rng.below(3) {
                0 => h.push(format!("uedge g0 {} {}", a, b)),
                1 => h.push(format!("cedge g0 {} {} {}", a, b, guard(rng, &gc))),
                _ => h.push(format!("uedge g0 {} {}", a, a)),
            }
        }
        if rng.chance(9, 10) {
            h.push(format!("entry g0 {}", rng.below(nb as u64)));
        }
        if rng.chance(4, 5) {
            h.push(format!("exit g0 {}", rng.below(nb as u64)));
        }
        h.push("merge g0".to_string());
        for _ in 0..rng.below(5) {
            let op = random_op(rng, &gc, &h, 0);
            h.push(op);
        }
        if rng.chance(1, 2) {
            h.push("merge g0".to_string());
        }
        h.emit("chains", em);
    }
}

/// an instruction-like graph in `g`: 1–4 blocks, entry and exit set
fn build_instruction_graph(rng: &mut Rng, gc: &GenCfg, h: &mut Hist, g: usize) {
    let gn = format!("g{}", g);
    match rng.below(4) {
        0 => {
            // one block
            h.push(format!("new_block {}", gn));
            for _ in 0..rng.range(0, 3) {
                h.push(format!("op {} 0 {}", gn, rand_op(rng, gc)));
            }
            h.push(format!("entry {} 0", gn));
            h.push(format!("exit {} 0", gn));
        }
        1 => {
            // head -> (cond) body -> tail, head -> (cond) tail   (conditional instruction)
            for _ in 0..3 {
                h.push(format!("new_block {}", gn));
            }
            h.push(format!("op {} 1 {}", gn, rand_op(rng, gc)));
            h.push(format!("cedge {} 0 1 {}", gn, guard(rng, gc)));
            h.push(format!("cedge {} 0 2 {}", gn, guard(rng, gc)));
            h.push(format!("uedge {} 1 2", gn));
            h.push(format!("entry {} 0", gn));
            h.push(format!("exit {} 2", gn));
        }
        2 => {
            // rep-style loop: head -> body -> head, head -> exit
            for _ in 0..3 {
                h.push(format!("new_block {}", gn));
            }
            h.push(format!("op {} 1 {}", gn, rand_op(rng, gc)));
            h.push(format!("cedge {} 0 1 {}", gn, guard(rng, gc)));
            h.push(format!("cedge {} 0 2 {}", gn, guard(rng, gc)));
            h.push(format!("uedge {} 1 0", gn));
            h.push(format!("entry {} 0", gn));
            h.push(format!("exit {} 2", gn));
        }
        _ => {
            // straight line of 2–4 blocks
            let n = rng.range(2, 4) as usize;
            for _ in 0..n {
                h.push(format!("new_block {}", gn));
            }
            for b in 0..n {
                if rng.chance(2, 3) {
                    h.push(format!("op {} {} {}", gn, b, rand_op(rng, gc)));
                }
            }
            for b in 1..n {
                h.push(format!("uedge {} {} {}", gn, b - 1, b));
            }
            h.push(format!("entry {} 0", gn));
            h.push(format!("exit {} {}", gn, n - 1));
        }
    }
}

/// what `BlockTranslationResult::blockify` does: new graph with one block as entry and exit, append the
/// instruction graphs, merge; plus variations (merged sources, insert, append after merge)
fn gen_blockify(rng: &mut Rng, em: &mut Emit, n: usize) {
    let gc = gen_cfg();
    for _ in 0..n {
        let mut h = Hist::new();
        build_instruction_graph(rng, &gc, &mut h, 1);
        build_instruction_graph(rng, &gc, &mut h, 2);
        if rng.chance(1, 4) {
            h.push(format!("merge g{}", rng.range(1, 2)));
        }
        if rng.chance(1, 3) {
            // the real BlockTranslationResult::blockify on 0–5 instruction graphs
            let n = rng.below(6);
            let srcs: Vec<String> = (0..n).map(|_| format!(" g{}", rng.range(1, 2))).collect();
            h.push(format!("blockify g0{}", srcs.concat()));
            if rng.chance(1, 3) {
                h.push(format!("append g0 g{}", rng.range(1, 2)));
                h.push("merge g0".to_string());
            }
            h.emit("blockify", em);
            continue;
        }
        if rng.chance(4, 5) {
            h.push("new_block g0".to_string());
            h.push("entry g0 0".to_string());
            h.push("exit g0 0".to_string());
        }
        for _ in 0..rng.range(1, 5) {
            if rng.chance(1, 8) {
                h.push(format!("insert g0 g{}", rng.range(1, 2)));
            } else {
                h.push(format!("append g0 g{}", rng.range(1, 2)));
            }
        }
        h.push("merge g0".to_string());
        if rng.chance(1, 3) {
            h.push(format!("append g0 g{}", rng.range(1, 2)));
            h.push("merge g0".to_string());
        }
        if rng.chance(1, 4) {
            // a graph appended to another one after it was merged itself
            h.push("append g1 g0".to_string());
        }
        h.emit("blockify", em);
    }
}

/// every graph on `nb` blocks (each possible edge absent / unconditional / conditional when `full`,
/// otherwise sampled), each block carrying one distinguishable instruction, every entry, some exits; merge
fn gen_small(rng: &mut Rng, em: &mut Emit, nb: usize, samples: Option<usize>) {
    let pairs: Vec<(usize, usize)> = (0..nb).flat_map(|a| (0..nb).map(move |b| (a, b))).collect();
    let total = 3u64.pow(pairs.len() as u32);
    let codes: Vec<u64> = match samples {
        None => (0..total).collect(),
        Some(n) => (0..n).map(|_| rng.below(total)).collect(),
    };
    for code in codes {
        for entry in 0..=nb {
            let exits: Vec<usize> = if samples.is_none() { (0..=nb).collect() } else { vec![rng.below(nb as u64 + 1) as usize] };
            for exit in exits {
                let mut h = Hist::new();
                for b in 0..nb {
                    h.push("new_block g0".to_string());
                    h.push(format!("op g0 {} (assign (s a 32) (c 0x{:x} 32))", b, b + 1));
                }
                let mut k = code;
                for (a, b) in &pairs {
                    match k % 3 {
                        1 => h.push(format!("uedge g0 {} {}", a, b)),
                        2 => h.push(format!("cedge g0 {} {} (cmpeq (s a 32) (c 0x{:x} 32))", a, b, a * nb + b)),
                        _ => {}
                    }
                    k /= 3;
                }
                if entry < nb {
                    h.push(format!("entry g0 {}", entry));
                }
                if exit < nb {
                    h.push(format!("exit g0 {}", exit));
                }
                h.push("merge g0".to_string());
                h.emit(&format!("small{}", nb), em);
            }
        }
    }
}

fn generate(tier: Tier, rng: &mut Rng, em: &mut Emit) {
    let quick = tier == Tier::Quick;
    let mut r0 = rng.fork();
    gen_small(&mut r0, em, 1, None);
    gen_small(&mut r0, em, 2, None);
    gen_small(&mut r0, em, 3, Some(if quick { 400 } else { 2_000 }));
    gen_small(&mut r0, em, 4, Some(if quick { 100 } else { 1_000 }));
    let mut r1 = rng.fork();
    gen_chains(&mut r1, em, if quick { 2_500 } else { 9_000 });
    let mut r2 = rng.fork();
    gen_blockify(&mut r2, em, if quick { 2_500 } else { 9_000 });
    let mut r3 = rng.fork();
    gen_random(&mut r3, em, if quick { 4_000 } else { 9_000 });
}

fn main() {
    run_main(&generate, &answer);
}
