//! C19 — ELF loading maps exactly the image and rebases uniformly.
//!
//! The request grammar is documented in lean/Drivers/C19.lean: ONE line, items separated by ` ; `, that
//! describe one or more ELF objects structurally (`obj`, `ph`, `sym`, `dsym`, `dyn`, `need`, `rel`, `rela`,
//! `plt`, `user`) followed by queries (`load <base>`, `link`).
//!
//! This binary contains an ELF WRITER (`write_file`): ELF32/ELF64, LSB/MSB, any machine, program headers
//! with the bytes they cover, `.symtab/.strtab`, and — inside a PT_LOAD segment — `.hash/.dynsym/.dynstr/
//! .rel.dyn/.rela.dyn/.rel.plt/.dynamic/.got` (`build_dynamic`).  `answer` writes the file(s) under
//! /verif/work/c19/, loads them with the REAL `falcon::loader::Elf` / `ElfLinker`, checks that the view
//! the `goblin` parser hands to falcon equals the description of the request (`bad-request:<what>` otherwise),
//! prints what the loader reports and deletes the files.
//!
//!   c19 selftest [N]     writes N generated objects and compares `readelf -a -W` with their descriptions
use falcon::loader::{Elf, ElfLinker, ElfLinkerBuilder, Loader};
use fvh::canon::{catch, err_str};
use fvh::{run_main, Emit, Rng, Tier};
use std::path::PathBuf;

const SEP: &str = " ; ";
const PT_LOAD: u32 = 1;
const PT_DYNAMIC: u32 = 2;

// ------------------------------------------------------------------------------------------ description

#[derive(Clone, Debug, Default)]
struct Ph {
    ptype: u32,
    flags: u32,
    off: u64,
    vaddr: u64,
    filesz: u64,
    memsz: u64,
    bytes: Vec<u8>,
    paddr: u64,
    align: u64,
}

#[derive(Clone, Debug, Default)]
struct Sym {
    name: String,
    value: u64,
    size: u64,
    info: u8,
    other: u8,
    shndx: u16,
}

#[derive(Clone, Debug, Default)]
struct Rel {
    off: u64,
    sym: u32,
    rtype: u32,
    addend: u64,
}

#[derive(Clone, Debug, Default)]
struct Obj {
    name: String,
    c64: bool,
    le: bool,
    machine: u16,
    etype: u16,
    entry: u64,
    phs: Vec<Ph>,
    syms: Vec<Sym>,
    dsyms: Vec<Sym>,
    dyns: Vec<(u64, u64)>,
    needs: Vec<String>,
    rels: Vec<Rel>,
    relas: Vec<Rel>,
    plt: Vec<Rel>,
}

fn hex(d: &[u8]) -> String {
    if d.is_empty() {
        return "-".to_string();
    }
    d.iter().map(|b| format!("{:02x}", b)).collect()
}

fn unhex(s: &str) -> Option<Vec<u8>> {
    if s == "-" {
        return Some(vec![]);
    }
    if s.len() % 2 != 0 {
        return None;
    }
    (0..s.len() / 2).map(|i| u8::from_str_radix(s.get(2 * i..2 * i + 2)?, 16).ok()).collect()
}

fn show_name(s: &str) -> String {
    if s.is_empty() {
        "~".to_string()
    } else {
        s.to_string()
    }
}

fn parse_name(s: &str) -> String {
    if s == "~" {
        String::new()
    } else {
        s.to_string()
    }
}

impl Obj {
    fn items(&self) -> Vec<String> {
        let mut v = vec![format!(
            "obj {} {} {} {} {} {}",
            self.name,
            if self.c64 { 64 } else { 32 },
            if self.le { "le" } else { "be" },
            self.machine,
            self.etype,
            self.entry
        )];
        for p in &self.phs {
            v.push(format!("ph {} {} {} {} {} {} {} {} {}", p.ptype, p.flags, p.off, p.vaddr, p.paddr, p.filesz, p.memsz, p.align, hex(&p.bytes)));
        }
        let sy = |k: &str, s: &Sym| format!("{} {} {} {} {} {} {}", k, show_name(&s.name), s.value, s.size, s.info, s.other, s.shndx);
        for s in &self.syms {
            v.push(sy("sym", s));
        }
        for s in &self.dsyms {
            v.push(sy("dsym", s));
        }
        for (t, x) in &self.dyns {
            v.push(format!("dyn {} {}", t, x));
        }
        for n in &self.needs {
            v.push(format!("need {}", n));
        }
        for r in &self.rels {
            v.push(format!("rel {} {} {}", r.off, r.sym, r.rtype));
        }
        for r in &self.relas {
            v.push(format!("rela {} {} {} {}", r.off, r.sym, r.rtype, r.addend));
        }
        for r in &self.plt {
            v.push(format!("plt {} {} {} {}", r.off, r.sym, r.rtype, r.addend));
        }
        v
    }
    fn has_dynamic(&self) -> bool {
        !self.dyns.is_empty()
    }
    fn dyn_val(&self, tag: u64) -> Option<u64> {
        self.dyns.iter().find(|d| d.0 == tag).map(|d| d.1)
    }
    fn plt_is_rela(&self) -> bool {
        self.dyn_val(20) == Some(7)
    }
    /// file offset of a virtual address, the way goblin computes it
    fn vm_to_offset(&self, a: u64) -> Option<u64> {
        for p in &self.phs {
            if p.ptype == PT_LOAD && a >= p.vaddr && a - p.vaddr < p.memsz {
                return p.off.checked_add(a - p.vaddr);
            }
        }
        None
    }
}

// ------------------------------------------------------------------------------------------ the writer

struct Buf {
    le: bool,
    b: Vec<u8>,
}

impl Buf {
    fn new(le: bool) -> Buf {
        Buf { le, b: Vec::new() }
    }
    fn u8(&mut self, v: u8) {
        self.b.push(v);
    }
    fn u16(&mut self, v: u16) {
        if self.le {
            self.b.extend_from_slice(&v.to_le_bytes())
        } else {
            self.b.extend_from_slice(&v.to_be_bytes())
        }
    }
    fn u32(&mut self, v: u32) {
        if self.le {
            self.b.extend_from_slice(&v.to_le_bytes())
        } else {
            self.b.extend_from_slice(&v.to_be_bytes())
        }
    }
    fn u64(&mut self, v: u64) {
        if self.le {
            self.b.extend_from_slice(&v.to_le_bytes())
        } else {
            self.b.extend_from_slice(&v.to_be_bytes())
        }
    }
    /// an address-sized word
    fn word(&mut self, c64: bool, v: u64) {
        if c64 {
            self.u64(v)
        } else {
            self.u32(v as u32)
        }
    }
    fn align(&mut self, n: usize) {
        while self.b.len() % n != 0 {
            self.b.push(0);
        }
    }
}

/// string table: offsets of the names (the empty name is offset 0)
fn strtab(names: &[&str]) -> (Vec<u8>, Vec<u32>) {
    let mut t = vec![0u8];
    let mut offs = Vec::new();
    for n in names {
        if n.is_empty() {
            offs.push(0);
        } else {
            offs.push(t.len() as u32);
            t.extend_from_slice(n.as_bytes());
            t.push(0);
        }
    }
    (t, offs)
}

fn put_sym(b: &mut Buf, c64: bool, name_off: u32, s: &Sym) {
    if c64 {
        b.u32(name_off);
        b.u8(s.info);
        b.u8(s.other);
        b.u16(s.shndx);
        b.u64(s.value);
        b.u64(s.size);
    } else {
        b.u32(name_off);
        b.u32(s.value as u32);
        b.u32(s.size as u32);
        b.u8(s.info);
        b.u8(s.other);
        b.u16(s.shndx);
    }
}

fn put_rel(b: &mut Buf, c64: bool, r: &Rel, rela: bool) {
    if c64 {
        b.u64(r.off);
        b.u64(((r.sym as u64) << 32) | r.rtype as u64);
        if rela {
            b.u64(r.addend);
        }
    } else {
        b.u32(r.off as u32);
        b.u32((r.sym << 8) | (r.rtype & 0xff));
        if rela {
            b.u32(r.addend as u32);
        }
    }
}

fn symtab_bytes(c64: bool, le: bool, syms: &[Sym]) -> (Vec<u8>, Vec<u8>) {
    let names: Vec<&str> = syms.iter().map(|s| s.name.as_str()).collect();
    let (st, offs) = strtab(&names);
    let mut b = Buf::new(le);
    put_sym(&mut b, c64, 0, &Sym::default());
    for (s, o) in syms.iter().zip(offs) {
        put_sym(&mut b, c64, o, s);
    }
    (b.b, st)
}

struct Sh {
    name: String,
    stype: u32,
    flags: u64,
    addr: u64,
    off: u64,
    size: u64,
    link: u32,
    info: u32,
    align: u64,
    entsize: u64,
}

/// The whole file for a description: ELF header, program headers, the bytes of every program header at
/// its offset, then (not loaded) .symtab/.strtab/.shstrtab and the section headers.
fn write_file(o: &Obj) -> Vec<u8> {
    let c64 = o.c64;
    let ehsize: usize = if c64 { 64 } else { 52 };
    let phentsize: usize = if c64 { 56 } else { 32 };
    let shentsize: usize = if c64 { 64 } else { 40 };
    let syment: u64 = if c64 { 24 } else { 16 };
    let hdr_end = ehsize + o.phs.len() * phentsize;
    let mut file = vec![0u8; hdr_end];
    for p in &o.phs {
        if !p.bytes.is_empty() {
            let end = p.off as usize + p.bytes.len();
            if file.len() < end {
                file.resize(end, 0);
            }
            file[p.off as usize..end].copy_from_slice(&p.bytes);
        }
    }
    while file.len() % 8 != 0 {
        file.push(0);
    }
    // sections
    let mut shs: Vec<Sh> = vec![Sh { name: String::new(), stype: 0, flags: 0, addr: 0, off: 0, size: 0, link: 0, info: 0, align: 0, entsize: 0 }];
    let mut k = 0;
    for p in &o.phs {
        if p.ptype == PT_LOAD {
            let mut fl = 2u64;
            if p.flags & 2 != 0 {
                fl |= 1;
            }
            if p.flags & 1 != 0 {
                fl |= 4;
            }
            // the section covers only a part of its segment: sh_addr / sh_offset / sh_size differ from the
            // program header's fields (the image is defined by the program headers, not by the sections)
            let nobits = p.filesz == 0;
            let extent = if nobits { p.memsz } else { p.filesz };
            let delta = if extent >= 2 { 1 + extent / 3 } else { 0 };
            shs.push(Sh {
                name: format!(".seg{}", k),
                stype: if nobits { 8 } else { 1 },
                flags: fl,
                addr: p.vaddr + delta,
                off: p.off + delta,
                size: extent - delta,
                link: 0,
                info: 0,
                align: 1,
                entsize: 0,
            });
            k += 1;
        }
    }
    if o.has_dynamic() {
        let at = |tag: u64| -> Option<(u64, u64)> { o.dyn_val(tag).and_then(|a| o.vm_to_offset(a).map(|f| (a, f))) };
        let dynstr_idx = shs.len() as u32;
        if let Some((a, f)) = at(5) {
            shs.push(Sh { name: ".dynstr".into(), stype: 3, flags: 2, addr: a, off: f, size: o.dyn_val(10).unwrap_or(0), link: 0, info: 0, align: 1, entsize: 0 });
        }
        let dynsym_idx = shs.len() as u32;
        if let Some((a, f)) = at(6) {
            shs.push(Sh { name: ".dynsym".into(), stype: 11, flags: 2, addr: a, off: f, size: (1 + o.dsyms.len() as u64) * syment, link: dynstr_idx, info: first_global(&o.dsyms), align: 4, entsize: syment });
        }
        if let Some((a, f)) = at(4) {
            shs.push(Sh { name: ".hash".into(), stype: 5, flags: 2, addr: a, off: f, size: (3 + 1 + o.dsyms.len() as u64) * 4, link: dynsym_idx, info: 0, align: 4, entsize: 4 });
        }
        let relent: u64 = if c64 { 16 } else { 8 };
        let relaent: u64 = if c64 { 24 } else { 12 };
        if let Some((a, f)) = at(17) {
            shs.push(Sh { name: ".rel.dyn".into(), stype: 9, flags: 2, addr: a, off: f, size: o.dyn_val(18).unwrap_or(0), link: dynsym_idx, info: 0, align: 4, entsize: relent });
        }
        if let Some((a, f)) = at(7) {
            shs.push(Sh { name: ".rela.dyn".into(), stype: 4, flags: 2, addr: a, off: f, size: o.dyn_val(8).unwrap_or(0), link: dynsym_idx, info: 0, align: 4, entsize: relaent });
        }
        if let Some((a, f)) = at(23) {
            let rela = o.plt_is_rela();
            shs.push(Sh {
                name: if rela { ".rela.plt".into() } else { ".rel.plt".into() },
                stype: if rela { 4 } else { 9 },
                flags: 2,
                addr: a,
                off: f,
                size: o.dyn_val(2).unwrap_or(0),
                link: dynsym_idx,
                info: 0,
                align: 4,
                entsize: if rela { relaent } else { relent },
            });
        }
        if let Some(p) = o.phs.iter().find(|p| p.ptype == PT_DYNAMIC) {
            shs.push(Sh { name: ".dynamic".into(), stype: 6, flags: 3, addr: p.vaddr, off: p.off, size: p.filesz, link: dynstr_idx, info: 0, align: 4, entsize: if c64 { 16 } else { 8 } });
        }
    }
    if !o.syms.is_empty() {
        let (tab, st) = symtab_bytes(c64, o.le, &o.syms);
        let nlocal = first_global(&o.syms);
        let idx = shs.len() as u32;
        shs.push(Sh { name: ".symtab".into(), stype: 2, flags: 0, addr: 0, off: file.len() as u64, size: tab.len() as u64, link: idx + 1, info: nlocal, align: 8, entsize: syment });
        file.extend_from_slice(&tab);
        shs.push(Sh { name: ".strtab".into(), stype: 3, flags: 0, addr: 0, off: file.len() as u64, size: st.len() as u64, link: 0, info: 0, align: 1, entsize: 0 });
        file.extend_from_slice(&st);
    }
    let names: Vec<String> = shs.iter().map(|s| s.name.clone()).chain(std::iter::once(".shstrtab".to_string())).collect();
    let (shstr, offs) = strtab(&names.iter().map(|s| s.as_str()).collect::<Vec<_>>());
    shs.push(Sh { name: ".shstrtab".into(), stype: 3, flags: 0, addr: 0, off: file.len() as u64, size: shstr.len() as u64, link: 0, info: 0, align: 1, entsize: 0 });
    file.extend_from_slice(&shstr);
    while file.len() % 8 != 0 {
        file.push(0);
    }
    let shoff = file.len();
    let mut b = Buf::new(o.le);
    for (s, no) in shs.iter().zip(&offs) {
        b.u32(*no);
        b.u32(s.stype);
        b.word(c64, s.flags);
        b.word(c64, s.addr);
        b.word(c64, s.off);
        b.word(c64, s.size);
        b.u32(s.link);
        b.u32(s.info);
        b.word(c64, s.align);
        b.word(c64, s.entsize);
    }
    debug_assert_eq!(b.b.len(), shs.len() * shentsize);
    file.extend_from_slice(&b.b);
    // ELF header
    let mut h = Buf::new(o.le);
    for &x in &[0x7fu8, b'E', b'L', b'F', if c64 { 2 } else { 1 }, if o.le { 1 } else { 2 }, 1, 0, 0, 0, 0, 0, 0, 0, 0, 0] {
        h.u8(x);
    }
    h.u16(o.etype);
    h.u16(o.machine);
    h.u32(1);
    h.word(c64, o.entry);
    h.word(c64, ehsize as u64);
    h.word(c64, shoff as u64);
    h.u32(0);
    h.u16(ehsize as u16);
    h.u16(phentsize as u16);
    h.u16(o.phs.len() as u16);
    h.u16(shentsize as u16);
    h.u16(shs.len() as u16);
    h.u16(shs.len() as u16 - 1);
    debug_assert_eq!(h.b.len(), ehsize);
    for p in &o.phs {
        let align = p.align;
        h.u32(p.ptype);
        if c64 {
            h.u32(p.flags);
            h.u64(p.off);
            h.u64(p.vaddr);
            h.u64(p.paddr);
            h.u64(p.filesz);
            h.u64(p.memsz);
            h.u64(align);
        } else {
            h.u32(p.off as u32);
            h.u32(p.vaddr as u32);
            h.u32(p.paddr as u32);
            h.u32(p.filesz as u32);
            h.u32(p.memsz as u32);
            h.u32(p.flags);
            h.u32(align as u32);
        }
    }
    file[..h.b.len()].copy_from_slice(&h.b);
    file
}

/// sh_info of a symbol table: one more than the index of the last local symbol
fn first_global(syms: &[Sym]) -> u32 {
    1 + syms.iter().rposition(|s| s.info >> 4 == 0).map(|i| i as u32 + 1).unwrap_or(0)
}

/// size of the ELF header and the program header table for `nph` headers
fn headers_end(c64: bool, nph: usize) -> u64 {
    (if c64 { 64 + 56 * nph } else { 52 + 32 * nph }) as u64
}

/// What the dynamic linker needs, laid out inside one loadable segment that starts at `vaddr`:
/// .hash, .dynsym, .dynstr, .rel.dyn, .rela.dyn, .rel(a).plt, .dynamic, then the GOT words.
/// Fills `o.dyns`; returns (segment bytes, offset of .dynamic within it, size of .dynamic, address of the GOT).
fn build_dynamic(o: &mut Obj, vaddr: u64, plt_rela: bool, got: &[u32], mips: Option<(u64, u64)>) -> (Vec<u8>, u64, u64, u64) {
    let c64 = o.c64;
    let mut b = Buf::new(o.le);
    let n = 1 + o.dsyms.len() as u32;
    let hash_at = vaddr;
    b.u32(1);
    b.u32(n);
    b.u32(0);
    for _ in 0..n {
        b.u32(0);
    }
    b.align(8);
    let dynsym_at = vaddr + b.b.len() as u64;
    let mut names: Vec<&str> = o.dsyms.iter().map(|s| s.name.as_str()).collect();
    let nsym = names.len();
    for nd in &o.needs {
        names.push(nd.as_str());
    }
    let (st, offs) = strtab(&names);
    put_sym(&mut b, c64, 0, &Sym::default());
    for (s, off) in o.dsyms.iter().zip(&offs) {
        put_sym(&mut b, c64, *off, s);
    }
    let dynstr_at = vaddr + b.b.len() as u64;
    b.b.extend_from_slice(&st);
    b.align(8);
    let rel_at = vaddr + b.b.len() as u64;
    for r in &o.rels {
        put_rel(&mut b, c64, r, false);
    }
    let rela_at = vaddr + b.b.len() as u64;
    for r in &o.relas {
        put_rel(&mut b, c64, r, true);
    }
    let plt_at = vaddr + b.b.len() as u64;
    for r in &o.plt {
        put_rel(&mut b, c64, r, plt_rela);
    }
    b.align(8);
    let relent: u64 = if c64 { 16 } else { 8 };
    let relaent: u64 = if c64 { 24 } else { 12 };
    let mut dyns: Vec<(u64, u64)> = Vec::new();
    for i in 0..o.needs.len() {
        dyns.push((1, offs[nsym + i] as u64));
    }
    dyns.push((4, hash_at));
    dyns.push((5, dynstr_at));
    dyns.push((6, dynsym_at));
    dyns.push((10, st.len() as u64));
    dyns.push((11, if c64 { 24 } else { 16 }));
    if !o.rels.is_empty() {
        dyns.push((17, rel_at));
        dyns.push((18, o.rels.len() as u64 * relent));
        dyns.push((19, relent));
    }
    if !o.relas.is_empty() {
        dyns.push((7, rela_at));
        dyns.push((8, o.relas.len() as u64 * relaent));
        dyns.push((9, relaent));
    }
    let ndyn_before_got = dyns.len();
    if !o.plt.is_empty() {
        dyns.push((2, o.plt.len() as u64 * if plt_rela { relaent } else { relent }));
        dyns.push((20, if plt_rela { 7 } else { 17 }));
        dyns.push((23, plt_at));
    }
    if let Some((local_gotno, gotsym)) = mips {
        dyns.push((0x7000_000a, local_gotno));
        dyns.push((0x7000_0013, gotsym));
        dyns.push((0x7000_0011, n as u64));
    }
    let dynent: u64 = if c64 { 16 } else { 8 };
    let dynamic_off = b.b.len() as u64;
    let total = dyns.len() as u64 + 2; // + DT_PLTGOT + DT_NULL
    let got_at = vaddr + dynamic_off + total * dynent;
    dyns.insert(ndyn_before_got, (3, got_at));
    dyns.push((0, 0));
    for (t, v) in &dyns {
        b.word(c64, *t);
        b.word(c64, *v);
    }
    let dynamic_size = dyns.len() as u64 * dynent;
    for w in got {
        b.u32(*w);
    }
    o.dyns = dyns;
    (b.b, dynamic_off, dynamic_size, got_at)
}

// ------------------------------------------------------------------------------------------ parsing

#[derive(Default)]
struct St {
    objs: Vec<Obj>,
    users: Vec<u64>,
    /// after `link`: the live linker and the directory that holds the files
    linker: Option<(ElfLinker, PathBuf)>,
    /// a linker call failed: the Rust object is in an unspecified state, later calls answer `skipped`
    dead: bool,
}

fn parse_sym(t: &[&str]) -> Option<Sym> {
    Some(Sym { name: parse_name(t[0]), value: t[1].parse().ok()?, size: t[2].parse().ok()?, info: t[3].parse().ok()?, other: t[4].parse().ok()?, shndx: t[5].parse().ok()? })
}

fn parse_rel(t: &[&str]) -> Option<Rel> {
    Some(Rel { off: t[0].parse().ok()?, sym: t[1].parse().ok()?, rtype: t[2].parse().ok()?, addend: if t.len() > 3 { t[3].parse().ok()? } else { 0 } })
}

/// a declaration item; `None` = malformed
fn declare(st: &mut St, t: &[&str]) -> Option<()> {
    match t {
        ["obj", name, cls, enc, m, ty, e] => {
            let c64 = match *cls {
                "32" => false,
                "64" => true,
                _ => return None,
            };
            let le = match *enc {
                "le" => true,
                "be" => false,
                _ => return None,
            };
            st.objs.push(Obj { name: name.to_string(), c64, le, machine: m.parse().ok()?, etype: ty.parse().ok()?, entry: e.parse().ok()?, ..Default::default() });
        }
        ["ph", ty, f, o, v, pa, fs, ms, al, hx] => {
            let p = Ph { ptype: ty.parse().ok()?, flags: f.parse().ok()?, off: o.parse().ok()?, vaddr: v.parse().ok()?, filesz: fs.parse().ok()?, memsz: ms.parse().ok()?, bytes: unhex(hx)?, paddr: pa.parse().ok()?, align: al.parse().ok()? };
            st.objs.last_mut()?.phs.push(p);
        }
        ["sym", rest @ ..] if rest.len() == 6 => {
            let s = parse_sym(rest)?;
            st.objs.last_mut()?.syms.push(s);
        }
        ["dsym", rest @ ..] if rest.len() == 6 => {
            let s = parse_sym(rest)?;
            st.objs.last_mut()?.dsyms.push(s);
        }
        ["dyn", tg, v] => {
            let d = (tg.parse().ok()?, v.parse().ok()?);
            st.objs.last_mut()?.dyns.push(d);
        }
        ["need", n] => st.objs.last_mut()?.needs.push(n.to_string()),
        ["rel", rest @ ..] if rest.len() == 3 => {
            let r = parse_rel(rest)?;
            st.objs.last_mut()?.rels.push(r);
        }
        ["rela", rest @ ..] if rest.len() == 4 => {
            let r = parse_rel(rest)?;
            st.objs.last_mut()?.relas.push(r);
        }
        ["plt", rest @ ..] if rest.len() == 4 => {
            let r = parse_rel(rest)?;
            st.objs.last_mut()?.plt.push(r);
        }
        ["user", a] => st.users.push(a.parse().ok()?),
        _ => return None,
    }
    Some(())
}

// ------------------------------------------------------------------------------------------ observing falcon

fn scratch() -> PathBuf {
    let d = PathBuf::from(format!("/verif/work/c19/p{}", std::process::id()));
    let _ = std::fs::create_dir_all(&d);
    d
}

fn fnv(bs: &[u8]) -> u64 {
    let mut h: u64 = 0xcbf2_9ce4_8422_2325;
    for b in bs {
        h = (h ^ *b as u64).wrapping_mul(0x100_0000_01b3);
    }
    h
}

/// maximal runs of consecutive mapped addresses with equal permissions
fn render_memory(m: &falcon::memory::backing::Memory) -> String {
    let mut runs: Vec<(u64, u32, Vec<u8>)> = Vec::new();
    for (a, s) in m.sections() {
        if s.is_empty() {
            continue;
        }
        let p = s.permissions().bits();
        if let Some(last) = runs.last_mut() {
            if last.0.wrapping_add(last.2.len() as u64) == *a && last.1 == p {
                last.2.extend_from_slice(s.data());
                continue;
            }
        }
        runs.push((*a, p, s.data().to_vec()));
    }
    if runs.is_empty() {
        return "-".to_string();
    }
    runs.iter()
        .map(|(a, p, d)| {
            let body = if d.len() <= 640 { d.iter().map(|b| format!("{:02x}", b)).collect::<String>() } else { format!("#{:x}", fnv(d)) };
            format!("{}:{}:{}:{}", a, d.len(), p, body)
        })
        .collect::<Vec<_>>()
        .join(",")
}

fn list(v: Vec<String>) -> String {
    if v.is_empty() {
        "-".to_string()
    } else {
        v.join(",")
    }
}

fn observe(l: &dyn Loader) -> String {
    let a = l.architecture();
    let arch = format!("{}/{}", a.name(), match a.endian() {
        falcon::architecture::Endian::Big => "be",
        falcon::architecture::Endian::Little => "le",
    });
    let mem = match catch(|| l.memory()) {
        None => "panic".to_string(),
        Some(Err(e)) => err_str(&e).to_string(),
        Some(Ok(m)) => render_memory(&m),
    };
    let (fe, fnames) = match catch(|| l.function_entries()) {
        None => ("panic".to_string(), "panic".to_string()),
        Some(Err(e)) => (err_str(&e).to_string(), err_str(&e).to_string()),
        Some(Ok(v)) => (
            list(v.iter().map(|e| e.address().to_string()).collect()),
            list(v.iter().map(|e| e.name().map(show_name).unwrap_or_else(|| "-".to_string())).collect()),
        ),
    };
    let syms = match catch(|| l.symbols()) {
        None => "panic".to_string(),
        Some(v) => list(v.iter().map(|s| format!("{}@{}", s.address(), show_name(s.name()))).collect()),
    };
    let pe = match catch(|| l.program_entry()) {
        None => "panic".to_string(),
        Some(v) => v.to_string(),
    };
    format!("arch={} mem={} fe={} fn={} syms={} pe={}", arch, mem, fe, fnames, syms, pe)
}

/// does the view the goblin parser hands to falcon equal the description?  `Some(what)` when it does not
fn goblin_differs(e: &Elf, o: &Obj, file: &[u8]) -> Option<String> {
    let g = e.elf();
    if g.is_64 != o.c64 || g.little_endian != o.le {
        return Some("class/encoding".into());
    }
    if g.header.e_machine != o.machine || g.header.e_type != o.etype || g.header.e_entry != o.entry {
        return Some("header".into());
    }
    if g.program_headers.len() != o.phs.len() {
        return Some("phnum".into());
    }
    for (i, (gp, p)) in g.program_headers.iter().zip(&o.phs).enumerate() {
        if gp.p_type != p.ptype || gp.p_flags != p.flags || gp.p_offset != p.off || gp.p_vaddr != p.vaddr || gp.p_paddr != p.paddr || gp.p_align != p.align || gp.p_filesz != p.filesz || gp.p_memsz != p.memsz {
            return Some(format!("ph{}", i));
        }
        if p.ptype == PT_LOAD || !p.bytes.is_empty() {
            let r = file.get(p.off as usize..(p.off + p.filesz) as usize);
            if r != Some(&p.bytes[..]) {
                return Some(format!("ph{}-bytes", i));
            }
        }
    }
    let same = |gs: (&str, u64, u64, u8, u8, usize), s: &Sym| gs.0 == s.name && gs.1 == s.value && gs.2 == s.size && gs.3 == s.info && gs.4 == s.other && gs.5 == s.shndx as usize;
    let want = if o.syms.is_empty() { 0 } else { 1 + o.syms.len() };
    if g.syms.len() != want {
        return Some(format!("symtab-len {} {}", g.syms.len(), want));
    }
    for (i, gs) in g.syms.iter().enumerate().skip(1) {
        let name = g.strtab.get_at(gs.st_name).unwrap_or("?");
        if !same((name, gs.st_value, gs.st_size, gs.st_info, gs.st_other, gs.st_shndx), &o.syms[i - 1]) {
            return Some(format!("sym{}", i));
        }
    }
    let want = if o.has_dynamic() { 1 + o.dsyms.len() } else { 0 };
    if g.dynsyms.len() != want {
        return Some(format!("dynsym-len {} {}", g.dynsyms.len(), want));
    }
    for (i, gs) in g.dynsyms.iter().enumerate().skip(1) {
        let name = g.dynstrtab.get_at(gs.st_name).unwrap_or("?");
        if !same((name, gs.st_value, gs.st_size, gs.st_info, gs.st_other, gs.st_shndx), &o.dsyms[i - 1]) {
            return Some(format!("dsym{}", i));
        }
    }
    let gd: Vec<(u64, u64)> = g.dynamic.as_ref().map(|d| d.dyns.iter().map(|x| (x.d_tag, x.d_val)).collect()).unwrap_or_default();
    if gd != o.dyns {
        return Some("dynamic".into());
    }
    let libs: Vec<String> = g.libraries.iter().map(|s| s.to_string()).collect();
    if libs != o.needs {
        return Some("needed".into());
    }
    let rela_plt = o.plt_is_rela();
    for (what, rs, want, rela) in [("rel", &g.dynrels, &o.rels, false), ("rela", &g.dynrelas, &o.relas, true), ("plt", &g.pltrelocs, &o.plt, rela_plt)] {
        if rs.len() != want.len() {
            return Some(format!("{}-len", what));
        }
        for (gr, r) in rs.iter().zip(want.iter()) {
            if gr.r_offset != r.off || gr.r_sym != r.sym as usize || gr.r_type != r.rtype || (rela && gr.r_addend != Some(r.addend as i64)) {
                return Some(what.to_string());
            }
        }
    }
    None
}

thread_local! {
    static COUNTER: std::cell::Cell<u64> = std::cell::Cell::new(0);
}

fn fresh() -> u64 {
    COUNTER.with(|c| {
        c.set(c.get() + 1);
        c.get()
    })
}

fn load_answer(o: &Obj, users: &[u64], base: u64) -> String {
    let file = write_file(o);
    let n = fresh();
    // the three ways of opening an object are taken in turn
    let r = match n % 3 {
        0 => catch(|| Elf::new(file.clone(), base)),
        _ => {
            let path = scratch().join(format!("f{}", n));
            if std::fs::write(&path, &file).is_err() {
                return "bad-request:io".to_string();
            }
            let r = if base == 0 && n % 3 == 1 { catch(|| Elf::from_file(&path)) } else { catch(|| Elf::from_file_with_base_address(&path, base)) };
            let _ = std::fs::remove_file(&path);
            r
        }
    };
    match r {
        None => "panic".to_string(),
        Some(Err(e)) => err_str(&e).to_string(),
        Some(Ok(mut e)) => {
            if let Some(w) = goblin_differs(&e, o, &file) {
                return format!("bad-request:{}", w);
            }
            for u in users {
                e.add_user_function(*u);
            }
            observe(&e)
        }
    }
}

/// writes every described object into `dir`; `None` when that is not possible
fn write_objs(dir: &PathBuf, objs: &[Obj]) -> Option<Vec<Vec<u8>>> {
    let mut files = Vec::new();
    for o in objs {
        let f = write_file(o);
        if o.name.contains('/') || std::fs::write(dir.join(&o.name), &f).is_err() {
            return None;
        }
        files.push(f);
    }
    Some(files)
}

/// goblin's view of every loaded object against its description, then what the linker reports
fn observe_linker(l: &ElfLinker, objs: &[Obj], files: &[Vec<u8>]) -> String {
    for (name, e) in l.loaded() {
        match objs.iter().position(|o| &o.name == name) {
            None => return "bad-request:loaded-unknown".to_string(),
            Some(i) => {
                if let Some(w) = goblin_differs(e, &objs[i], &files[i]) {
                    return format!("bad-request:{}:{}", name, w);
                }
            }
        }
    }
    observe(l)
}

/// `link`: ElfLinkerBuilder::new(first object).link(); the linker stays alive for later `loadelf` calls
fn link_answer(st: &mut St) -> String {
    if let Some((_, d)) = st.linker.take() {
        let _ = std::fs::remove_dir_all(&d);
    }
    let dir = scratch().join(format!("l{}", fresh()));
    let _ = std::fs::create_dir_all(&dir);
    let files = match write_objs(&dir, &st.objs) {
        Some(f) => f,
        None => {
            let _ = std::fs::remove_dir_all(&dir);
            return "bad-request:io".to_string();
        }
    };
    let main = dir.join(&st.objs[0].name);
    let r = catch(|| ElfLinkerBuilder::new(main).ld_paths(Some(vec![dir.clone()])).link());
    match r {
        None | Some(Err(_)) => {
            let _ = std::fs::remove_dir_all(&dir);
            st.dead = true;
            match r {
                Some(Err(e)) => err_str(&e).to_string(),
                _ => "panic".to_string(),
            }
        }
        Some(Ok(l)) => {
            let a = observe_linker(&l, &st.objs, &files);
            st.linker = Some((l, dir));
            st.dead = false;
            a
        }
    }
}

/// `loadelf <name> <base>`: a further call of the public `ElfLinker::load_elf` on the live linker
fn loadelf_answer(st: &mut St, name: &str, base: u64) -> String {
    if st.dead || st.linker.is_none() {
        return "skipped".to_string();
    }
    let (l, dir) = st.linker.as_mut().unwrap();
    let files = match write_objs(dir, &st.objs) {
        Some(f) => f,
        None => return "bad-request:io".to_string(),
    };
    match catch(|| l.load_elf(std::path::Path::new(name), base)) {
        None => {
            st.dead = true;
            "panic".to_string()
        }
        Some(Err(e)) => {
            st.dead = true;
            err_str(&e).to_string()
        }
        Some(Ok(())) => observe_linker(l, &st.objs, &files),
    }
}

fn answer(req: &str) -> String {
    let mut st = St::default();
    let mut out: Vec<String> = Vec::new();
    for item in req.split(SEP) {
        let t: Vec<&str> = item.split(' ').collect();
        let a = match t.as_slice() {
            ["load", b] => match (b.parse::<u64>(), st.objs.last()) {
                (Ok(b), Some(o)) => load_answer(o, &st.users, b),
                _ => "bad-request".to_string(),
            },
            ["link"] => {
                if st.objs.is_empty() {
                    "bad-request".to_string()
                } else {
                    link_answer(&mut st)
                }
            }
            ["loadelf", name, b] => match b.parse::<u64>() {
                Ok(b) => loadelf_answer(&mut st, name, b),
                Err(_) => "bad-request".to_string(),
            },
            _ => match declare(&mut st, &t) {
                Some(()) => "ok".to_string(),
                None => "bad-request".to_string(),
            },
        };
        out.push(a);
    }
    if let Some((_, d)) = st.linker.take() {
        let _ = std::fs::remove_dir_all(&d);
    }
    out.join(SEP)
}

// ------------------------------------------------------------------------------------------ generator

#[derive(Clone, Copy)]
struct ArchSel {
    name: &'static str,
    c64: bool,
    le: bool,
    machine: u16,
}

const ARCHS: [ArchSel; 7] = [
    ArchSel { name: "x86", c64: false, le: true, machine: 3 },
    ArchSel { name: "amd64", c64: true, le: true, machine: 62 },
    ArchSel { name: "mips", c64: false, le: false, machine: 8 },
    ArchSel { name: "mipsel", c64: false, le: true, machine: 8 },
    ArchSel { name: "ppc", c64: false, le: false, machine: 20 },
    ArchSel { name: "aarch64", c64: true, le: true, machine: 183 },
    ArchSel { name: "aarch64eb", c64: true, le: false, machine: 183 },
];

fn rand_bytes(rng: &mut Rng, n: u64) -> Vec<u8> {
    (0..n).map(|_| if rng.chance(1, 6) { 0 } else { rng.below(256) as u8 }).collect()
}

fn rand_name(rng: &mut Rng) -> String {
    let stem = *rng.pick(&["f", "g", "sub_", "var", "_Z3foo", "init", "fini", "main", "_start", "data.", "tbl$"]);
    if rng.chance(1, 5) {
        stem.to_string()
    } else {
        format!("{}{}", stem, rng.below(12))
    }
}

struct SegPlan {
    filesz: u64,
    memsz: u64,
    flags: u32,
}

fn rand_flags(rng: &mut Rng) -> u32 {
    let base = *rng.pick(&[5u32, 6, 4, 7, 5, 6, 1, 2, 3, 0]);
    if rng.chance(1, 12) {
        base | *rng.pick(&[0x0010_0000u32, 0x8000_0000, 8, 0xf000_0000])
    } else {
        base
    }
}

fn rand_seg(rng: &mut Rng) -> SegPlan {
    let filesz = match rng.below(10) {
        0 => 0,
        1 => 1,
        2 => 130 + rng.below(80),
        _ => 1 + rng.below(40),
    };
    let memsz = filesz
        + match rng.below(10) {
            0..=3 => 0,
            4..=6 => 1 + rng.below(24),
            7 => 120 + rng.below(200),
            8 => 4096 - (filesz % 4096),
            _ => 0x1000 + rng.below(0x2000),
        };
    SegPlan { filesz, memsz: if filesz == 0 && memsz == 0 && rng.chance(3, 4) { 1 + rng.below(64) } else { memsz }, flags: rand_flags(rng) }
}

/// lay `plans` out as PT_LOAD headers: file offsets from `off` on, virtual addresses from `vaddr` on
fn place(rng: &mut Rng, plans: &[SegPlan], mut off: u64, mut vaddr: u64, tight: bool) -> Vec<Ph> {
    let mut v = Vec::new();
    for p in plans {
        off += if tight { 0 } else { *rng.pick(&[0u64, 0, 1, 4, 16]) };
        let va = match if tight { 2 } else { rng.below(6) } {
            0 => vaddr,                                                // adjacent to the previous segment
            1 => vaddr + 1 + rng.below(40),
            _ => ((vaddr + 4095) & !4095) + (off % 4096),              // next page, congruent with the offset
        };
        v.push(Ph { ptype: PT_LOAD, flags: p.flags, off, vaddr: va, filesz: p.filesz, memsz: p.memsz, bytes: rand_bytes(rng, p.filesz), paddr: va, align: 1 });
        off += p.filesz;
        vaddr = va + p.memsz;
    }
    v
}

fn loads(o: &Obj) -> Vec<(usize, &Ph)> {
    o.phs.iter().filter(|p| p.ptype == PT_LOAD).enumerate().collect()
}

/// an address inside a loadable segment (file part or zero fill), with the index of its `.seg` section
fn rand_addr(rng: &mut Rng, o: &Obj) -> (u64, u16) {
    let ls: Vec<(usize, &Ph)> = loads(o).into_iter().filter(|(_, p)| p.memsz > 0).collect();
    if ls.is_empty() {
        return (1 + rng.below(1000), 0xfff1);
    }
    let (k, p) = ls[rng.below(ls.len() as u64) as usize];
    let offs = match rng.below(5) {
        0 => 0,
        1 => p.memsz - 1,
        _ => rng.below(p.memsz),
    };
    (p.vaddr + offs, 1 + k as u16)
}

fn rand_sym(rng: &mut Rng, o: &Obj, pool: &[Sym]) -> Sym {
    if !pool.is_empty() && rng.chance(1, 6) {
        // an existing symbol again: same address with another name, or the same symbol
        let mut s = rng.pick(pool).clone();
        if rng.chance(1, 2) {
            s.name = rand_name(rng);
        }
        return s;
    }
    let stype: u8 = *rng.pick(&[2u8, 2, 2, 2, 1, 1, 0, 0, 3, 4, 6, 10]);
    let bind: u8 = *rng.pick(&[0u8, 1, 1, 2]);
    let (mut value, mut shndx) = rand_addr(rng, o);
    match rng.below(20) {
        0 | 1 => {
            shndx = 0;
            value = if rng.chance(1, 4) { value } else { 0 };
        }
        2 => shndx = 0xfff1,
        3 => shndx = 0xfff2,
        4 => value = 0,
        _ => {}
    }
    let mut name = rand_name(rng);
    if stype == 3 {
        name = String::new();
    }
    if stype == 4 {
        value = 0;
        shndx = 0xfff1;
        name = format!("{}.c", name);
    }
    Sym { name, value, size: *rng.pick(&[0u64, 0, 4, 8, 37]), info: (bind << 4) | stype, other: *rng.pick(&[0u8, 0, 0, 2]), shndx }
}

/// Program headers that are NOT loadable, mixed into the table: some describe a part of a loadable segment
/// (TLS with a larger memory size, RELRO, EH_FRAME, SHLIB), some have their own file bytes and their own
/// virtual address outside every loadable range (NOTE, INTERP), GNU_STACK carries an address and a size.
/// None of them may show up in the image.
fn extra_phdrs(rng: &mut Rng, o: &Obj, n: usize) -> Vec<Ph> {
    let mut v: Vec<Ph> = Vec::new();
    let mut file_end = o.phs.iter().map(|p| p.off + p.bytes.len() as u64).max().unwrap_or(0);
    let va_end = loads(o).iter().map(|(_, p)| p.vaddr + p.memsz).max().unwrap_or(0);
    let mut free_va = ((va_end + 0xffff) & !0xfff) + 0x1_0000;
    let word = |le: bool, x: u32| if le { x.to_le_bytes() } else { x.to_be_bytes() };
    for _ in 0..n {
        let ls = loads(o);
        let host = ls[rng.below(ls.len() as u64) as usize].1;
        let sub = |rng: &mut Rng, bigger: bool| {
            let fs = if host.filesz == 0 { 0 } else { rng.below(host.filesz + 1) };
            let st = if host.filesz == 0 { 0 } else { rng.below(host.filesz - fs + 1) };
            (host.off + st, host.vaddr + st, fs, if bigger { fs + rng.below(64) } else { fs })
        };
        let own = |file_end: &mut u64, free_va: &mut u64, ptype: u32, bytes: Vec<u8>, extra_mem: u64| {
            let off = (*file_end + 3) & !3;
            let va = *free_va + off % 4096;
            *file_end = off + bytes.len() as u64;
            *free_va += 0x2000;
            let len = bytes.len() as u64;
            Ph { ptype, flags: 4, off, vaddr: va, filesz: len, memsz: len + extra_mem, bytes, paddr: va, align: 4 }
        };
        let p = match rng.below(8) {
            0 => {
                // GNU_STACK with an address and a size of its own
                let va = free_va;
                free_va += 0x2000;
                Ph { ptype: 0x6474_e551, flags: *rng.pick(&[6u32, 7]), vaddr: if rng.chance(1, 2) { va } else { 0 }, memsz: *rng.pick(&[0u64, 0x1000, 64]), align: 16, ..Default::default() }
            }
            1 => {
                let (off, va, fs, ms) = sub(rng, false);
                Ph { ptype: 5, flags: 4, off, vaddr: va, filesz: fs, memsz: ms, bytes: vec![], paddr: va, align: 1 }
            }
            2 => {
                let (off, va, fs, ms) = sub(rng, true);
                Ph { ptype: 7, flags: 4, off, vaddr: va, filesz: fs, memsz: ms, bytes: vec![], paddr: va, align: 8 }
            }
            3 => {
                let (off, va, fs, ms) = sub(rng, false);
                Ph { ptype: 0x6474_e552, flags: 4, off, vaddr: va, filesz: fs, memsz: ms, bytes: vec![], paddr: va, align: 1 }
            }
            4 => {
                let (off, va, fs, ms) = sub(rng, false);
                Ph { ptype: 0x6474_e550, flags: 4, off, vaddr: va, filesz: fs, memsz: ms, bytes: vec![], paddr: va, align: 4 }
            }
            5 | 6 => {
                // PT_NOTE with a well-formed note of its own: name "GNU", 4 bytes of description
                let mut b = Vec::new();
                b.extend_from_slice(&word(o.le, 4));
                b.extend_from_slice(&word(o.le, 4));
                b.extend_from_slice(&word(o.le, 0x100 + rng.below(16) as u32));
                b.extend_from_slice(b"GNU\0");
                b.extend_from_slice(&word(o.le, rng.below(1 << 32) as u32));
                own(&mut file_end, &mut free_va, 4, b, 0)
            }
            _ => {
                if v.iter().any(|p: &Ph| p.ptype == 3) {
                    let (off, va, fs, ms) = sub(rng, false);
                    Ph { ptype: 5, flags: 4, off, vaddr: va, filesz: fs, memsz: ms, bytes: vec![], paddr: va, align: 1 }
                } else {
                    let path = *rng.pick(&["/lib/ld.so.1", "/lib64/ld-linux-x86-64.so.2", "/x"]);
                    let mut b = path.as_bytes().to_vec();
                    b.push(0);
                    own(&mut file_end, &mut free_va, 3, b, 0)
                }
            }
        };
        v.push(p);
    }
    v
}

/// p_paddr and p_align are drawn independently of the fields the loader must use: p_paddr equals p_vaddr in about
/// a third of the headers, otherwise it is a page-aligned address far away from every virtual range of the object
fn scramble_paddr_align(rng: &mut Rng, o: &mut Obj) {
    let vmin = o.phs.iter().map(|p| p.vaddr).min().unwrap_or(0);
    let vmax = o.phs.iter().map(|p| p.vaddr + p.memsz).max().unwrap_or(0);
    let cands: Vec<u64> = [0x3000_0000u64, 0x7000_0000, 0x0200_0000, 0x5000_0000]
        .iter()
        .cloned()
        .filter(|c| c + 0x0100_0000 < vmin || *c > vmax + 0x0100_0000)
        .collect();
    for (k, p) in o.phs.iter_mut().enumerate() {
        if p.ptype == 0x6474_e551 && p.vaddr == 0 && p.memsz == 0 {
            continue;
        }
        if !rng.chance(1, 3) && !cands.is_empty() {
            p.paddr = *rng.pick(&cands) + 0x1_0000 * k as u64;
        } else {
            p.paddr = p.vaddr;
        }
        if p.ptype == 4 {
            continue; // readelf insists on p_align 4 or 8 for notes
        }
        let congruent = p.off % 4096 == p.vaddr % 4096;
        p.align = match rng.below(6) {
            0 => 0,
            1 => 1,
            2 => *rng.pick(&[4u64, 8, 16, 64]),
            3 if congruent => 0x1000,
            4 if p.off % 0x1_0000 == p.vaddr % 0x1_0000 => 0x1_0000,
            _ => *rng.pick(&[1u64, 2, 0x20]),
        };
    }
}

/// appends the dynamic segment (one more PT_LOAD) and the PT_DYNAMIC header; relocation sites and GOT
/// contents are chosen by `fill` once the address of the GOT is known
fn add_dynamic(
    rng: &mut Rng,
    o: &mut Obj,
    plt_rela: bool,
    ngot: usize,
    mips: Option<(u64, u64)>,
    fill: &mut dyn FnMut(&mut Rng, &mut Obj, u64) -> Vec<u32>,
) {
    let end_off = o.phs.iter().map(|p| p.off + p.bytes.len() as u64).max().unwrap_or(0).max(headers_end(o.c64, o.phs.len() + 2 + 3));
    let end_va = o.phs.iter().filter(|p| p.ptype == PT_LOAD).map(|p| p.vaddr + p.memsz).max().unwrap_or(0);
    let off = (end_off + 7) & !7;
    let vaddr = ((end_va + 4095) & !4095) + off % 4096;
    // first pass (same random choices, sites not known yet) fixes the sizes of the tables, hence the GOT address
    let mut dry = rng.clone();
    let zeros = fill(&mut dry, o, 0);
    let (_, _, _, got_at) = build_dynamic(o, vaddr, plt_rela, &zeros, mips);
    let got = fill(rng, o, got_at);
    debug_assert_eq!(got.len(), ngot);
    let (bytes, doff, dsize, got2) = build_dynamic(o, vaddr, plt_rela, &got, mips);
    debug_assert_eq!(got_at, got2);
    let extra = *rng.pick(&[0u64, 0, 8, 40]);
    let len = bytes.len() as u64;
    o.phs.push(Ph { ptype: PT_LOAD, flags: 6, off, vaddr, filesz: len, memsz: len + extra, bytes, paddr: vaddr, align: 1 });
    o.phs.push(Ph { ptype: PT_DYNAMIC, flags: 6, off: off + doff, vaddr: vaddr + doff, filesz: dsize, memsz: dsize, bytes: vec![], paddr: vaddr + doff, align: 1 });
}

fn plt_type(a: &ArchSel) -> (u32, bool) {
    match a.machine {
        3 => (7, false),
        62 => (7, true),
        183 => (1026, true),
        20 => (21, true),
        _ => (127, false),
    }
}

/// one well-formed object for the single-load cases; returns the class tags
fn gen_single(rng: &mut Rng, a: &ArchSel) -> (Obj, Vec<u64>, String) {
    let dynamic = rng.chance(2, 5);
    let nload = 1 + rng.below(if dynamic { 3 } else { 4 }) as usize;
    let nextra = *rng.pick(&[0usize, 0, 1, 2, 3]);
    let etype: u16 = if rng.chance(1, 2) { 2 } else { 3 };
    let base: u64 = if etype == 3 {
        *rng.pick(&[0u64, 0x1000, 0x10000])
    } else if a.c64 {
        *rng.pick(&[0x40_0000u64, 0x1_0000, 0x5555_5555_4000, 0x1_0000_0000])
    } else {
        *rng.pick(&[0x0804_8000u64, 0x40_0000, 0x1_0000, 0x1000_0000])
    };
    let mut o = Obj { name: "a.out".into(), c64: a.c64, le: a.le, machine: a.machine, etype, ..Default::default() };
    let nph = nload + nextra + if dynamic { 2 } else { 0 };
    let plans: Vec<SegPlan> = (0..nload).map(|_| rand_seg(rng)).collect();
    o.phs = place(rng, &plans, headers_end(a.c64, nph), base, false);
    let bss = o.phs.iter().any(|p| p.memsz > p.filesz);
    // symbols
    let mut pool: Vec<Sym> = Vec::new();
    for _ in 0..rng.below(8) {
        let s = rand_sym(rng, &o, &pool);
        pool.push(s.clone());
        o.syms.push(s);
    }
    if dynamic {
        for _ in 0..rng.below(6) {
            let s = rand_sym(rng, &o, &pool);
            pool.push(s.clone());
            o.dsyms.push(s);
        }
        // imports
        for _ in 0..rng.below(4) {
            o.dsyms.push(Sym { name: rand_name(rng), value: 0, size: 0, info: 0x12, other: 0, shndx: 0 });
        }
    }
    // entry
    let funcs: Vec<u64> = pool.iter().filter(|s| s.info & 15 == 2 && s.value != 0).map(|s| s.value).collect();
    o.entry = match rng.below(10) {
        0..=3 => loads(&o).iter().find(|(_, p)| p.flags & 1 != 0).map(|(_, p)| p.vaddr).unwrap_or(base),
        4..=6 => rand_addr(rng, &o).0,
        7 | 8 if !funcs.is_empty() => *rng.pick(&funcs),
        9 => 0,
        _ => base + 0x10_0000,
    };
    let mut users = Vec::new();
    if rng.chance(1, 2) {
        for _ in 0..1 + rng.below(3) {
            users.push(match rng.below(5) {
                0 => o.entry,
                1 if !funcs.is_empty() => *rng.pick(&funcs),
                2 if !users.is_empty() => users[0],
                _ => rand_addr(rng, &o).0,
            });
        }
    }
    let mut has_plt = false;
    if dynamic {
        let (pt, plt_rela) = plt_type(a);
        let nd = o.dsyms.len() as u64;
        let nplt = if a.machine == 8 { 0 } else { rng.below(4) as usize };
        let nrel = rng.below(3) as usize;
        let nrela = if a.c64 { rng.below(3) as usize } else { 0 };
        has_plt = nplt > 0;
        let ngot = 2 + nplt + nrel + nrela;
        let mips = if a.machine == 8 { Some((2u64, 1 + nd)) } else { None };
        add_dynamic(rng, &mut o, plt_rela, ngot, mips, &mut |rng, o, got_at| {
            let mut slot = 2u64;
            let mut next = |_: &mut Rng| {
                slot += 1;
                got_at + 4 * (slot - 1)
            };
            o.plt = (0..nplt).map(|_| Rel { off: next(rng), sym: if nd == 0 || rng.chance(1, 10) { 0 } else { 1 + rng.below(nd) as u32 }, rtype: pt, addend: if plt_rela { rng.below(3) } else { 0 } }).collect();
            o.rels = (0..nrel).map(|_| Rel { off: next(rng), sym: if nd == 0 { 0 } else { rng.below(nd + 1) as u32 }, rtype: *rng.pick(&[1u32, 6, 8, 3]), addend: 0 }).collect();
            o.relas = (0..nrela).map(|_| Rel { off: next(rng), sym: if nd == 0 { 0 } else { rng.below(nd + 1) as u32 }, rtype: *rng.pick(&[1u32, 6, 8, 1027]), addend: rng.below(100) }).collect();
            (0..ngot).map(|_| rng.below(0x1_0000) as u32).collect()
        });
    }
    // the other program headers go anywhere in the table
    for p in extra_phdrs(rng, &o, nextra) {
        let at = rng.below(o.phs.len() as u64 + 1) as usize;
        o.phs.insert(at, p);
    }
    if !dynamic && rng.chance(1, 6) {
        // loadable segments not in ascending order
        let n = o.phs.len();
        o.phs.swap(0, n - 1);
    }
    debug_assert_eq!(o.phs.len(), nph);
    scramble_paddr_align(rng, &mut o);
    let nl = loads(&o).len();
    let tags = format!(
        "seg{}{}{}{}{}",
        nl,
        if bss { "/bss" } else { "" },
        if dynamic { "/dyn" } else { "" },
        if has_plt { "/plt" } else { "" },
        if users.is_empty() { "" } else { "/user" }
    );
    (o, users, tags)
}

fn request(objs: &[Obj], users: &[u64], queries: &[String]) -> String {
    let mut items: Vec<String> = Vec::new();
    for o in objs {
        items.extend(o.items());
    }
    for u in users {
        items.push(format!("user {}", u));
    }
    items.extend(queries.iter().cloned());
    items.join(SEP)
}

fn bases(c64: bool) -> Vec<u64> {
    let mut b = vec![0u64, 0x1000, 0x4000_0000];
    if c64 {
        b.push(1 << 40);
    }
    b
}

fn load_queries(bs: &[u64]) -> Vec<String> {
    bs.iter().map(|b| format!("load {}", b)).collect()
}

// ---- several objects

struct LinkCase {
    objs: Vec<Obj>,
    class: String,
    /// `link` followed by the further `loadelf` calls of the history
    calls: Vec<String>,
}

/// main program + 1..3 shared objects with DT_NEEDED edges, exports, imports and the relocations falcon's
/// linker implements (x86: R_386_32/GLOB_DAT/JMP_SLOT/RELATIVE; MIPS o32: GOT + R_MIPS_REL32)
/// `extra` > 0: a HISTORY on one linker: objects the program does not need (shared objects, with and without
/// dependencies of their own, and a second program) are loaded by further `load_elf` calls; names already loaded are
/// loaded again (at the same base or at another one); the last call may name a file that does not exist.
fn gen_link(rng: &mut Rng, a: &ArchSel, sibling: bool, extra: usize) -> LinkCase {
    let mips = a.machine == 8;
    let nlib = 1 + rng.below(3) as usize;
    let mut names: Vec<String> = std::iter::once("prog".to_string()).chain((0..nlib).map(|i| format!("lib{}.so", (b'a' + i as u8) as char))).collect();
    let n1 = names.len();
    for k in 0..extra {
        names.push(if k + 1 == extra && rng.chance(1, 2) { "prog2".to_string() } else { format!("lib{}.so", (b'x' + k as u8) as char) });
    }
    let n = names.len();
    // DT_NEEDED edges
    let mut needs: Vec<Vec<usize>> = vec![Vec::new(); n];
    for e in n1..n {
        // objects loaded by later calls: without dependencies, or needing anything but the program
        if rng.chance(2, 3) {
            for j in 1..n {
                if j != e && rng.chance(1, 3) {
                    needs[e].push(j);
                }
            }
        }
    }
    for i in 1..n1 {
        for j in 1..n1 {
            if i != j && rng.chance(if j > i { 2 } else { 1 }, 6) {
                needs[i].push(j);
            }
        }
    }
    let mut order: Vec<usize> = (1..n1).collect();
    if rng.chance(1, 2) {
        order.reverse();
    }
    for j in order {
        if rng.chance(2, 3) {
            needs[0].push(j);
        }
    }
    // load order (depth first) and, per object, how many objects are loaded when it is relocated
    fn dfs(i: usize, needs: &[Vec<usize>], pre: &mut Vec<usize>, done: &mut Vec<usize>) {
        pre.push(i);
        for &j in &needs[i] {
            if !pre.contains(&j) {
                dfs(j, needs, pre, done);
            }
        }
        done[i] = pre.len();
    }
    let mut pre = Vec::new();
    let mut done = vec![0usize; n];
    {
        let first: Vec<Vec<usize>> = needs.iter().map(|v| v.iter().cloned().filter(|&j| j < n1).collect()).collect();
        dfs(0, &first, &mut pre, &mut done);
    }
    for j in 1..n1 {
        if !pre.contains(&j) {
            needs[0].push(j);
        }
    }
    pre.clear();
    dfs(0, &needs, &mut pre, &mut done);
    // the history: per call, the objects it loads; `call_end[i]` = how many objects are loaded when the call that
    // first loads object i returns (all of them are in the symbol table when i is relocated)
    let mut call_end = vec![0usize; n];
    for &i in &pre {
        call_end[i] = pre.len();
    }
    let mut calls: Vec<String> = vec!["link".to_string()];
    let mut cur_base: Vec<u64> = vec![0; n];
    {
        // bases of the first call: the program at 0, libraries at 0x42000000, 0x44000000, ... in load order
        for (k, &i) in pre.iter().enumerate().skip(1) {
            cur_base[i] = 0x4000_0000 + 0x0200_0000 * k as u64;
        }
    }
    let mut next_lib = 0x4000_0000u64 + 0x0200_0000 * (pre.len() as u64 - 1);
    let mut reload = false;
    for (k, e) in (n1..n).enumerate() {
        let base = 0x5000_0000u64 + 0x0200_0000 * k as u64;
        let before = pre.len();
        if pre.contains(&e) {
            reload = true; // already loaded as a dependency of an earlier call: placed a second time
            pre.push(e);
        } else {
            dfs(e, &needs, &mut pre, &mut done);
        }
        for (q, &i) in pre.iter().enumerate().skip(before) {
            if call_end[i] == 0 {
                call_end[i] = 0; // fixed below, once the call is complete
            }
            if q > before {
                next_lib += 0x0200_0000;
                cur_base[i] = next_lib;
            }
        }
        cur_base[e] = base;
        let end = pre.len();
        for &i in pre.iter().skip(before) {
            if call_end[i] == 0 {
                call_end[i] = end;
            }
        }
        calls.push(format!("loadelf {} {}", names[e], base));
        if rng.chance(1, 3) {
            // a name that is already loaded, again: where it is, or somewhere else
            let j = *rng.pick(&pre); // (any loaded object, now and then the program itself)
            let b = if rng.chance(1, 2) { cur_base[j] } else { 0x6000_0000 + 0x0200_0000 * k as u64 };
            cur_base[j] = b;
            pre.push(j);
            reload = true;
            calls.push(format!("loadelf {} {}", names[j], b));
        }
    }
    let missing = extra > 0 && rng.chance(1, 8);
    if missing {
        calls.push("loadelf libnone.so 1879048192".to_string());
        calls.push(format!("loadelf {} 1912602624", names[n - 1]));
    }
    // exports: unique names per object, sometimes a lib repeats a name of the main program
    let mut exports: Vec<Vec<(String, u8)>> = Vec::new();
    for i in 0..n {
        let mut e = Vec::new();
        for j in 0..1 + rng.below(3) {
            e.push((format!("o{}_f{}", i, j), *rng.pick(&[0x12u8, 0x12, 0x22, 0x11])));
        }
        if i > 0 && rng.chance(1, 4) {
            e.push((exports[0][0].0.clone(), 0x12));
        }
        exports.push(e);
    }
    let mut objs = Vec::new();
    let mut used_sibling = false;
    for i in 0..n {
        let etype: u16 = if i == 0 && rng.chance(2, 3) { 2 } else { 3 }; // (a second program is position independent)
        let base: u64 = if etype == 2 { *rng.pick(&[0x0804_8000u64, 0x40_0000]) } else { *rng.pick(&[0u64, 0x1000, 0x2_0000]) };
        let mut o = Obj { name: names[i].clone(), c64: a.c64, le: a.le, machine: a.machine, etype, ..Default::default() };
        let plans = vec![
            SegPlan { filesz: 16 + rng.below(32), memsz: 0, flags: 5 },
            SegPlan { filesz: 8 + 4 * rng.below(6), memsz: 0, flags: 6 },
        ];
        let plans: Vec<SegPlan> = plans.into_iter().enumerate().map(|(k, p)| SegPlan { memsz: p.filesz + if k == 1 { 4 * rng.below(5) } else { 0 }, ..p }).collect();
        o.phs = place(rng, &plans, headers_end(a.c64, 4), base, true);
        let text = o.phs[0].clone();
        // the data words are addresses inside the object (what RELATIVE / REL32 relocations expect)
        let words: Vec<u32> = (0..o.phs[1].filesz / 4).map(|_| (text.vaddr + rng.below(text.filesz)) as u32).collect();
        o.phs[1].bytes = words.iter().flat_map(|w| if a.le { w.to_le_bytes() } else { w.to_be_bytes() }).collect();
        let data = o.phs[1].clone();
        o.entry = text.vaddr;
        o.needs = needs[i].iter().map(|&j| names[j].clone()).collect();
        // who can this object see when it is relocated?
        let visible: Vec<usize> = pre.iter().take(done[i]).cloned().filter(|&j| j != i).collect();
        let later: Vec<usize> = pre.iter().take(call_end[i]).skip(done[i]).cloned().filter(|&j| j != i).collect();
        let mut imports: Vec<String> = Vec::new();
        for _ in 0..rng.below(4) {
            if !visible.is_empty() {
                let j = *rng.pick(&visible);
                let nm = rng.pick(&exports[j]).0.clone();
                if !imports.contains(&nm) && !exports[i].iter().any(|e| e.0 == nm) {
                    imports.push(nm);
                }
            }
        }
        if sibling && !later.is_empty() && (!used_sibling || rng.chance(1, 3)) {
            let j = *rng.pick(&later);
            let nm = rng.pick(&exports[j]).0.clone();
            if !imports.contains(&nm) && !exports[i].iter().any(|e| e.0 == nm) {
                imports.push(nm);
                used_sibling = true;
            }
        }
        // dynamic symbols: a local, the exports, the imports
        let mut local_syms = vec![Sym { name: format!("loc{}", i), value: data.vaddr, size: 4, info: 0x01, other: 0, shndx: 2 }];
        if rng.chance(1, 2) {
            local_syms.push(Sym { name: String::new(), value: text.vaddr, size: 0, info: 0x03, other: 0, shndx: 1 });
        }
        let exp_syms: Vec<Sym> = exports[i]
            .iter()
            .map(|(nm, info)| {
                let func = info & 15 == 2;
                let host = if func { &text } else { &data };
                Sym { name: nm.clone(), value: host.vaddr + rng.below(host.filesz), size: 4, info: *info, other: 0, shndx: if func { 1 } else { 2 } }
            })
            .collect();
        let imp_syms: Vec<Sym> = imports.iter().map(|nm| Sym { name: nm.clone(), value: 0, size: 0, info: 0x12, other: 0, shndx: 0 }).collect();
        o.syms = exp_syms.iter().take(1).cloned().collect();
        let data_slots: Vec<u64> = (0..data.memsz / 4).map(|k| data.vaddr + 4 * k).collect();
        if mips {
            // [null, locals..., GOT-mapped: exports then imports]
            let gotsym = 1 + local_syms.len() as u64;
            let nlocal_got = 2 + rng.below(3);
            // the GOT-mapped symbols (defined and undefined ones) in any order
            let mut globs: Vec<Sym> = exp_syms.iter().cloned().chain(imp_syms.iter().cloned()).collect();
            for k in (1..globs.len()).rev() {
                let j = rng.below(k as u64 + 1) as usize;
                globs.swap(k, j);
            }
            o.dsyms = local_syms.into_iter().chain(globs.iter().cloned()).collect();
            let nglob = globs.len();
            let ngot = nlocal_got as usize + nglob + 1;
            add_dynamic(rng, &mut o, false, ngot, Some((nlocal_got, gotsym)), &mut |rng, o, _got_at| {
                let mut slots = data_slots.clone();
                o.rels = Vec::new();
                for _ in 0..rng.below(3) {
                    if !slots.is_empty() {
                        let k = rng.below(slots.len() as u64) as usize;
                        o.rels.push(Rel { off: slots.remove(k), sym: 0, rtype: 3, addend: 0 });
                    }
                }
                if rng.chance(1, 3) && !slots.is_empty() {
                    o.rels.push(Rel { off: slots[0], sym: 0, rtype: 0, addend: 0 }); // R_MIPS_NONE
                }
                let mut got: Vec<u32> = vec![0, 0x8000_0000];
                for _ in 2..nlocal_got {
                    got.push((text.vaddr + rng.below(text.filesz)) as u32);
                }
                for g in &globs {
                    got.push(if g.shndx != 0 { g.value as u32 } else if rng.chance(1, 2) { 0 } else { text.vaddr as u32 });
                }
                got.push(0x1234_5678); // one word after the GOT proper: must stay untouched
                got
            });
        } else {
            o.dsyms = local_syms.into_iter().chain(exp_syms.iter().cloned()).chain(imp_syms.iter().cloned()).collect();
            let first_exp = (o.dsyms.len() - imp_syms.len() - exp_syms.len() + 1) as u32;
            let first_imp = first_exp + exp_syms.len() as u32;
            let (nexp, nimp) = (exp_syms.len() as u32, imp_syms.len() as u32);
            let ngot = 3 + 2 * nimp as usize + nexp as usize;
            add_dynamic(rng, &mut o, false, ngot, None, &mut |rng, o, got_at| {
                let mut slot = 3u64;
                let mut next = || {
                    slot += 1;
                    got_at + 4 * (slot - 1)
                };
                o.plt = Vec::new();
                o.rels = Vec::new();
                for k in 0..nimp {
                    match rng.below(4) {
                        0 => o.rels.push(Rel { off: next(), sym: first_imp + k, rtype: 6, addend: 0 }),
                        1 => o.rels.push(Rel { off: next(), sym: first_imp + k, rtype: 1, addend: 0 }),
                        _ => o.plt.push(Rel { off: next(), sym: first_imp + k, rtype: 7, addend: 0 }),
                    }
                    if rng.chance(1, 4) {
                        o.rels.push(Rel { off: next(), sym: first_imp + k, rtype: 6, addend: 0 });
                    }
                }
                for k in 0..nexp {
                    if rng.chance(1, 2) {
                        o.rels.push(Rel { off: next(), sym: first_exp + k, rtype: *rng.pick(&[6u32, 1]), addend: 0 });
                    }
                }
                let mut slots = data_slots.clone();
                for _ in 0..rng.below(3) {
                    if !slots.is_empty() {
                        let k = rng.below(slots.len() as u64) as usize;
                        o.rels.push(Rel { off: slots.remove(k), sym: 0, rtype: 8, addend: 0 });
                    }
                }
                (0..ngot).map(|_| (text.vaddr + rng.below(text.filesz)) as u32).collect()
            });
        }
        scramble_paddr_align(rng, &mut o);
        objs.push(o);
    }
    let m = if mips { "mips" } else { "x86" };
    let class = if extra == 0 {
        format!("link/{}/{}/libs{}", m, if used_sibling { "later-lib" } else { "resolved" }, nlib)
    } else {
        format!("hist/{}/calls{}{}{}", m, calls.len().min(5), if reload { "/reload" } else { "" }, if missing { "/missing" } else { "" })
    };
    LinkCase { objs, class, calls }
}

fn generate(tier: Tier, rng: &mut Rng, emit: &mut Emit) {
    let n = match tier {
        Tier::Quick => 2000,
        Tier::Thorough => 12500,
    };
    for i in 0..n {
        let a = ARCHS[(i % 7) as usize];
        match rng.below(20) {
            0..=12 => {
                let (o, users, tags) = gen_single(rng, &a);
                let q = load_queries(&bases(a.c64));
                emit.case(&format!("load/{}/{}", a.name, tags), request(&[o], &users, &q));
            }
            13 => {
                // outside the property's domain: inconsistent header, unsupported machine, overlapping
                // segments, addresses leaving u64
                let (mut o, users, _) = gen_single(rng, &a);
                let (class, q) = match rng.below(4) {
                    0 => {
                        o.machine = *rng.pick(&[3u16, 62, 20, 8, 183]);
                        if !o.has_dynamic() {
                            o.le = rng.chance(1, 2); // (the dynamic tables are already encoded)
                        }
                        ("odd/header", load_queries(&[0, 0x1000]))
                    }
                    1 => {
                        o.machine = *rng.pick(&[40u16, 243, 2, 0, 21]);
                        ("odd/machine", load_queries(&[0, 0x1000]))
                    }
                    2 => {
                        if !o.has_dynamic() {
                            let k = o.phs.iter().position(|p| p.ptype == PT_LOAD).unwrap();
                            let mut p = o.phs[k].clone();
                            let sh = rng.below(p.memsz + 2);
                            p.vaddr = if rng.chance(1, 2) { p.vaddr + sh } else { p.vaddr.saturating_sub(sh) };
                            p.flags = rand_flags(rng);
                            p.bytes = rand_bytes(rng, p.filesz);
                            p.off = o.phs.iter().map(|p| p.off + p.filesz).max().unwrap();
                            // one more header: the table grows, so does everything behind it
                            let grow = if o.c64 { 56 } else { 32 };
                            for q in o.phs.iter_mut() {
                                if q.ptype != 0x6474_e551 {
                                    q.off += grow;
                                }
                            }
                            p.off += grow;
                            o.phs.push(p);
                        }
                        ("odd/overlap", load_queries(&[0, 0x1000]))
                    }
                    _ => {
                        // bases that push the lowest segment to 2^64 exactly, or the highest end to 2^64 - 1
                        let vmin = loads(&o).iter().map(|(_, p)| p.vaddr).min().unwrap();
                        let vend = loads(&o).iter().map(|(_, p)| p.vaddr + p.memsz).max().unwrap();
                        let mut bs = vec![u64::MAX - vend];
                        if vmin > 0 {
                            bs.push(u64::MAX - vmin + 1);
                        }
                        ("odd/overflow", load_queries(&bs))
                    }
                };
                emit.case(class, request(&[o], &users, &q));
            }
            14..=18 => {
                let la = *rng.pick(&[ARCHS[0], ARCHS[0], ARCHS[2], ARCHS[3]]);
                let sib = rng.chance(1, 4);
                let extra = if rng.chance(1, 2) { 0 } else { 1 + rng.below(3) as usize };
                let lc = gen_link(rng, &la, sib, extra);
                emit.case(&lc.class, request(&lc.objs, &[], &lc.calls));
            }
            _ => {
                // a machine the linker has no relocations for
                let la = *rng.pick(&[ARCHS[1], ARCHS[4], ARCHS[5]]);
                let (mut o, _, _) = gen_single(rng, &la);
                o.name = "prog".into();
                emit.case("link/unsupported", request(&[o], &[], &["link".to_string()]));
            }
        }
    }
}

// ------------------------------------------------------------------------------------------ self-test

/// `readelf -a -W` on generated files, compared field by field with the description
fn selftest(n: u64) -> i32 {
    let mut rng = Rng::new(7);
    let mut bad = 0;
    let mut checked = 0;
    let dir = scratch();
    for i in 0..n {
        let a = ARCHS[(i % 7) as usize];
        let objs: Vec<Obj> = if i % 3 == 2 {
            {
                let la = [ARCHS[0], ARCHS[2], ARCHS[3]][(i % 9 / 3) as usize];
                gen_link(&mut rng, &la, false, (i % 2) as usize).objs
            }
        } else {
            vec![gen_single(&mut rng, &a).0]
        };
        for o in &objs {
            let path = dir.join(format!("st{}", i));
            std::fs::write(&path, write_file(o)).unwrap();
            let out = std::process::Command::new("readelf").arg("-a").arg("-W").arg(&path).output().expect("readelf");
            let _ = std::fs::remove_file(&path);
            let text = String::from_utf8_lossy(&out.stdout).to_string();
            let err = String::from_utf8_lossy(&out.stderr).to_string();
            let problems = compare_readelf(o, &text, &err, out.status.success());
            checked += 1;
            if !problems.is_empty() {
                bad += 1;
                if bad <= 5 {
                    eprintln!("selftest: object {} ({}): {}", i, o.items().join(SEP), problems.join("; "));
                }
            }
        }
    }
    let _ = std::fs::remove_dir_all(&dir);
    println!("selftest: {} objects written and read back by readelf, {} with differences", checked, bad);
    if bad == 0 {
        0
    } else {
        1
    }
}

fn hexnum(s: &str) -> Option<u64> {
    u64::from_str_radix(s.trim_start_matches("0x"), 16).ok()
}

fn compare_readelf(o: &Obj, text: &str, err: &str, ok: bool) -> Vec<String> {
    let mut p = Vec::new();
    if !ok {
        p.push("readelf failed".to_string());
    }
    for l in err.lines() {
        if l.contains("Error") || l.contains("Warning") {
            p.push(format!("readelf says: {}", l));
            break;
        }
    }
    let field = |k: &str| text.lines().find(|l| l.trim_start().starts_with(k)).map(|l| l.split_once(':').unwrap().1.trim().to_string());
    if field("Class:") != Some(if o.c64 { "ELF64" } else { "ELF32" }.to_string()) {
        p.push("class".into());
    }
    if field("Data:").map(|d| d.contains("little")) != Some(o.le) {
        p.push("data".into());
    }
    if field("Entry point address:").and_then(|v| hexnum(&v)) != Some(o.entry) {
        p.push("entry".into());
    }
    if field("Number of program headers:").and_then(|v| v.parse::<usize>().ok()) != Some(o.phs.len()) {
        p.push("phnum".into());
    }
    let mach = field("Machine:").unwrap_or_default();
    let want = match o.machine {
        3 => "80386",
        62 => "X86-64",
        8 => "MIPS",
        20 => "PowerPC",
        183 => "AArch64",
        _ => "",
    };
    if !mach.contains(want) {
        p.push(format!("machine {}", mach));
    }
    // program headers
    let mut phl: Vec<Vec<u64>> = Vec::new();
    let mut in_ph = false;
    for l in text.lines() {
        if l.starts_with("Program Headers:") {
            in_ph = true;
            continue;
        }
        if in_ph {
            if l.trim().is_empty() || l.contains("Section to Segment") {
                if !phl.is_empty() {
                    break;
                }
                continue;
            }
            let nums: Vec<u64> = l.split_whitespace().filter(|t| t.starts_with("0x")).filter_map(hexnum).collect();
            if nums.len() >= 5 {
                phl.push(nums);
            }
        }
    }
    if phl.len() != o.phs.len() {
        p.push(format!("program header lines {} vs {}", phl.len(), o.phs.len()));
    } else {
        for (i, (l, ph)) in phl.iter().zip(&o.phs).enumerate() {
            if l[0] != ph.off || l[1] != ph.vaddr || l[2] != ph.paddr || l[3] != ph.filesz || l[4] != ph.memsz || (l.len() == 6 && l[5] != ph.align) {
                p.push(format!("ph{}", i));
            }
        }
    }
    // symbol tables
    for (sec, syms) in [(".symtab", &o.syms), (".dynsym", &o.dsyms)] {
        let head = format!("Symbol table '{}' contains", sec);
        let present = if sec == ".symtab" { !syms.is_empty() } else { o.has_dynamic() };
        match text.lines().position(|l| l.starts_with(&head)) {
            None => {
                if present {
                    p.push(format!("{} missing", sec));
                }
            }
            Some(at) => {
                let rows: Vec<&str> = text.lines().skip(at + 2).take_while(|l| !l.trim().is_empty()).collect();
                if rows.len() != syms.len() + 1 {
                    p.push(format!("{} has {} rows, want {}", sec, rows.len(), syms.len() + 1));
                    continue;
                }
                for (r, s) in rows.iter().skip(1).zip(syms.iter()) {
                    let r2 = r.replace("<OS specific>: ", "OS").replace("<processor specific>: ", "PROC");
                    let t: Vec<&str> = r2.split_whitespace().collect();
                    let value = hexnum(t[1]);
                    let ndx = match t[6] {
                        "UND" => Some(0),
                        "ABS" => Some(0xfff1),
                        "COM" => Some(0xfff2),
                        x => x.parse::<u16>().ok(),
                    };
                    let name = if t.len() > 7 { t[7] } else { "" };
                    let section_sym = s.info & 15 == 3 && s.name.is_empty();
                    if value != Some(s.value) || ndx != Some(s.shndx) || (name != s.name && !section_sym) {
                        p.push(format!("{} row {}", sec, r.trim()));
                        break;
                    }
                }
            }
        }
    }
    // DT_NEEDED
    let needed: Vec<String> = text.lines().filter(|l| l.contains("(NEEDED)")).filter_map(|l| l.split('[').nth(1)).map(|s| s.trim_end_matches(']').to_string()).collect();
    if needed != o.needs {
        p.push(format!("needed {:?}", needed));
    }
    // relocations
    let mut want: Vec<(u64, u64)> = Vec::new();
    let info = |r: &Rel| if o.c64 { ((r.sym as u64) << 32) | r.rtype as u64 } else { ((r.sym as u64) << 8) | (r.rtype as u64 & 0xff) };
    for r in o.rels.iter().chain(o.relas.iter()).chain(o.plt.iter()) {
        want.push((r.off, info(r)));
    }
    let mut got: Vec<(u64, u64)> = Vec::new();
    let mut in_rel = false;
    for l in text.lines() {
        if l.starts_with("Relocation section") {
            in_rel = true;
            continue;
        }
        if in_rel {
            if l.trim().is_empty() {
                in_rel = false;
                continue;
            }
            let t: Vec<&str> = l.split_whitespace().collect();
            if t.len() >= 2 {
                if let (Some(a), Some(b)) = (u64::from_str_radix(t[0], 16).ok(), u64::from_str_radix(t[1], 16).ok()) {
                    got.push((a, b));
                }
            }
        }
    }
    want.sort();
    got.sort();
    if want != got {
        p.push(format!("relocations {:x?} vs {:x?}", got, want));
    }
    p
}

fn main() {
    let args: Vec<String> = std::env::args().collect();
    if args.get(1).map(|s| s.as_str()) == Some("selftest") {
        let n = args.get(2).and_then(|s| s.parse().ok()).unwrap_or(200);
        std::process::exit(selftest(n));
    }
    if args.get(1).map(|s| s.as_str()) == Some("write") {
        // c19 write DIR < request : the files of the request's objects, for inspection
        let mut line = String::new();
        std::io::stdin().read_line(&mut line).unwrap();
        let mut st = St::default();
        for item in line.trim_end().split(SEP) {
            let t: Vec<&str> = item.split(' ').collect();
            let _ = declare(&mut st, &t);
        }
        for o in &st.objs {
            std::fs::write(PathBuf::from(&args[2]).join(&o.name), write_file(o)).unwrap();
        }
        return;
    }
    run_main(&generate, &answer);
    let _ = std::fs::remove_dir_all(scratch());
}
