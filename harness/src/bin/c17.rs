//! C17 — stack-pointer offsets hold on every execution, for every architecture.
//!
//! request :  il <arch> <function in FIL>     |    mc <arch> <hex bytes>
//! answer  :  (sp <name> <bits>) [<lifted function in FIL>] <result>      (the function only for `mc`)
//!            | nolift <err:kind|panic>                                    (`mc`: the translator declined)
//! result  :  (ok (<loc> <T|B|isize>) ...) | err:<kind> | panic
//!            followed, for `mc x86` / `mc amd64`, by (x86d (<addr> <operand description>) ...): capstone's decoding of
//!            the bytes in the text form of harness/src/bin/c01/desc.rs, which the Lean x86 reference interpreter reads
//!            (the MIPS, PowerPC and A64 interpreters decode the raw bytes of the request themselves)
//! where the map is what `falcon::analysis::stack_pointer_offsets::stack_pointer_offsets(&function, &*arch)`
//! returned for the architecture object `arch` (locations sorted; `T` = Top, `B` = Bottom, a number = Value(isize)),
//! and `(sp ..)` is that architecture's own `stack_pointer()`.  `mc`: the bytes are placed at 0x1000 in a
//! `memory::backing::Memory` with READ|EXECUTE permission and lifted with the architecture's real translator
//! (`Translator::translate_function_extended`, unsupported instructions as intrinsics).
//! Locations: `i:<block>:<instruction index>`, `e:<head>:<tail>`, `b:<empty block>`.
use falcon::analysis::stack_pointer_offsets::{stack_pointer_offsets, StackPointerOffset};
use falcon::architecture::Architecture;
use falcon::il::{self, ControlFlowGraph, Expression as E, Function, FunctionLocation, Operation, Scalar};
use falcon::memory::backing::Memory;
use falcon::memory::MemoryPermissions;
use fvh::canon::{catch, err_str};
use fvh::fil::{function_str, read_function};
use fvh::genil::{gen_expr, gen_op, partition_guards, rand_const, GenCfg};
use fvh::lift::{arch, bytes_hex, hex_bytes, options, ARCHS};
use fvh::sx::parse_all;
use fvh::{run_main, Emit, Rng, Tier};
use std::collections::BTreeMap;

// capstone's decoding of x86 instructions as the text the Lean x86 reference interpreter reads (C01's module, used as is)
#[allow(dead_code)]
#[path = "c01/desc.rs"]
mod desc;

// ---------------------------------------------------------------- answer

fn loc_key(l: &FunctionLocation) -> (u8, usize, usize) {
    match *l {
        FunctionLocation::Instruction(b, i) => (0, b, i),
        FunctionLocation::Edge(h, t) => (1, h, t),
        FunctionLocation::EmptyBlock(b) => (2, b, 0),
    }
}

fn loc_str(l: &FunctionLocation) -> String {
    match *l {
        FunctionLocation::Instruction(b, i) => format!("i:{}:{}", b, i),
        FunctionLocation::Edge(h, t) => format!("e:{}:{}", h, t),
        FunctionLocation::EmptyBlock(b) => format!("b:{}", b),
    }
}

fn result_str(f: &Function, a: &dyn Architecture) -> String {
    let map = match catch(|| stack_pointer_offsets(f, a)) {
        None => return "panic".into(),
        Some(Err(e)) => return err_str(&e).to_string(),
        Some(Ok(m)) => m,
    };
    let mut by_loc: BTreeMap<(u8, usize, usize), String> = BTreeMap::new();
    for (pl, v) in map.iter() {
        let fl = pl.function_location().clone();
        let s = match v {
            StackPointerOffset::Top => "T".to_string(),
            StackPointerOffset::Bottom => "B".to_string(),
            StackPointerOffset::Value(i) => i.to_string(),
        };
        by_loc.insert(loc_key(&fl), format!("({} {})", loc_str(&fl), s));
    }
    let mut out = String::from("(ok");
    for (_, s) in by_loc.iter() {
        out.push(' ');
        out.push_str(s);
    }
    out.push(')');
    out
}

const BASE: u64 = 0x1000;

/// `(x86d (<addr> <operand description>) ...)`: a linear sweep of the bytes with capstone (the generated functions
/// are contiguous code), for the architectural witness run of the Lean x86 interpreter; stops at the first byte
/// capstone does not decode
fn x86_descs(amd64: bool, bytes: &[u8]) -> String {
    let dec = desc::Decoder::new(amd64);
    let mut out = String::from("(x86d");
    let mut off = 0usize;
    while off < bytes.len() {
        match dec.decode(&bytes[off..], BASE + off as u64) {
            Some(d) if d.len > 0 => {
                out.push_str(&format!(" (0x{:x} {})", BASE + off as u64, d.text()));
                off += d.len;
            }
            _ => break,
        }
    }
    out.push(')');
    out
}

fn lift(a: &dyn Architecture, bytes: &[u8]) -> Result<Function, String> {
    let mut mem = Memory::new(a.endian());
    mem.set_memory(BASE, bytes.to_vec(), MemoryPermissions::READ | MemoryPermissions::EXECUTE);
    match catch(|| a.translator().translate_function_extended(&mem, BASE, &options(true))) {
        None => Err("panic".into()),
        Some(Err(e)) => {
            if std::env::var("C17_DEBUG").is_ok() {
                eprintln!("lift error: {}", e);
            }
            Err(err_str(&e).to_string())
        }
        Some(Ok(f)) => Ok(f),
    }
}

fn answer(req: &str) -> String {
    let (kind, rest) = match req.split_once(' ') {
        Some(x) => x,
        None => return "bad-request".into(),
    };
    let (an, body) = match rest.split_once(' ') {
        Some(x) => x,
        None => return "bad-request".into(),
    };
    let a = match arch(an) {
        Some(a) => a,
        None => return "bad-request".into(),
    };
    let sp = a.stack_pointer();
    let sps = format!("(sp {} {})", sp.name(), sp.bits());
    match kind {
        "il" => {
            let xs = match parse_all(body) {
                Some(x) if x.len() == 1 => x,
                _ => return "bad-request".into(),
            };
            let f = match read_function(&xs[0]) {
                Some(f) => f,
                None => return "bad-request".into(),
            };
            format!("{} {}", sps, result_str(&f, &*a))
        }
        "mc" => {
            let bytes = match hex_bytes(body.trim()) {
                Some(b) => b,
                None => return "bad-request".into(),
            };
            match lift(&*a, &bytes) {
                Err(e) => format!("nolift {}", e),
                Ok(f) => {
                    let x = match an {
                        "x86" => format!(" {}", x86_descs(false, &bytes)),
                        "amd64" => format!(" {}", x86_descs(true, &bytes)),
                        _ => String::new(),
                    };
                    format!("{} {} {}{}", sps, function_str(&f), result_str(&f, &*a), x)
                }
            }
        }
        _ => "bad-request".into(),
    }
}

// ---------------------------------------------------------------- generator: IL functions

/// kinds of updates of the stack pointer; the worst one present names the class
#[derive(Clone, Copy, PartialEq, Eq, PartialOrd, Ord, Debug)]
enum Kind {
    None,
    Affine,      // sp ± constant, nested sums and differences of constants, sp * 1
    Load,        // sp := [..]
    Copy,        // sp := another scalar / an expression over other scalars / a constant
    Mixed,       // sp := sp + another scalar
    NonAffine(&'static str), // sp := sp <op> constant with a non-affine operator
    Scaled,      // sp := sp * 2, sp + sp
    Div0,        // sp := sp / 0
}

fn kind_str(k: Kind) -> String {
    match k {
        Kind::None => "none".into(),
        Kind::Affine => "affine".into(),
        Kind::Load => "load".into(),
        Kind::Copy => "copy".into(),
        Kind::Mixed => "mixed".into(),
        Kind::NonAffine(op) => format!("nonaffine-sp-update/{}", op),
        Kind::Scaled => "nonaffine-sp-update/scaled".into(),
        Kind::Div0 => "sp-update/div0".into(),
    }
}

fn small_off(rng: &mut Rng, bits: usize) -> il::Constant {
    let v: u64 = match rng.below(8) {
        0 => 4,
        1 => 8,
        2 => 16,
        3 => 0x20,
        4 => 0,
        5 => (-(rng.range(1, 64) as i64 * 4)) as u64, // two's complement negative
        6 => rng.range(1, 0x400),
        _ => rng.next(),
    };
    il::const_(v, bits)
}

/// one assignment (or load) to the stack pointer, with its kind
fn sp_update(rng: &mut Rng, sp: &Scalar, others: &[Scalar], div0: bool) -> (Operation, Kind) {
    let w = sp.bits();
    let spe = || E::Scalar(sp.clone());
    let c = |rng: &mut Rng| E::Constant(small_off(rng, w));
    let k = rng.below(100);
    if k < 22 {
        return (Operation::assign(sp.clone(), E::sub(spe(), c(rng)).unwrap()), Kind::Affine);
    }
    if k < 40 {
        return (Operation::assign(sp.clone(), E::add(spe(), c(rng)).unwrap()), Kind::Affine);
    }
    if k < 45 {
        return (Operation::assign(sp.clone(), E::add(c(rng), spe()).unwrap()), Kind::Affine);
    }
    if k < 52 {
        // nested: (sp - c1) + c2, c1 - (c2 - sp), (sp + (c1 - c2)), sp * 1, sp + c*c
        let e = match rng.below(6) {
            0 => E::add(E::sub(spe(), c(rng)).unwrap(), c(rng)).unwrap(),
            1 => E::sub(c(rng), E::sub(c(rng), spe()).unwrap()).unwrap(),
            2 => E::add(spe(), E::sub(c(rng), c(rng)).unwrap()).unwrap(),
            3 => E::mul(spe(), E::Constant(il::const_(1, w))).unwrap(),
            4 => E::add(spe(), E::mul(c(rng), c(rng)).unwrap()).unwrap(),
            _ => E::sub(E::add(spe(), spe()).unwrap(), spe()).unwrap(),
        };
        return (Operation::assign(sp.clone(), e), Kind::Affine);
    }
    if k < 62 {
        // alignment and other non-affine updates with a constant
        let mask = |rng: &mut Rng| -> E {
            let m: u64 = match rng.below(4) {
                0 => !0xf,
                1 => !0x7,
                2 => !0x3,
                _ => !0xff,
            };
            let _ = rng;
            E::Constant(il::const_(m, w))
        };
        let (e, op) = match rng.below(6) {
            0 | 1 => (E::and(spe(), mask(rng)).unwrap(), "and"),
            2 => (E::or(spe(), E::Constant(il::const_(rng.range(1, 15), w))).unwrap(), "or"),
            3 => (E::xor(spe(), E::Constant(il::const_(rng.range(1, 15), w))).unwrap(), "xor"),
            4 => (E::shr(spe(), E::Constant(il::const_(rng.range(1, 3), w))).unwrap(), "shr"),
            _ => (E::shl(spe(), E::Constant(il::const_(rng.range(1, 3), w))).unwrap(), "shl"),
        };
        return (Operation::assign(sp.clone(), e), Kind::NonAffine(op));
    }
    if k < 66 {
        let e = if rng.chance(1, 2) {
            E::mul(spe(), E::Constant(il::const_(rng.range(2, 5), w))).unwrap()
        } else {
            E::add(spe(), spe()).unwrap()
        };
        return (Operation::assign(sp.clone(), e), Kind::Scaled);
    }
    if k < 72 {
        let cond = E::cmpeq(spe(), spe()).unwrap();
        let e = match rng.below(3) {
            0 => E::ite(cond, E::sub(spe(), c(rng)).unwrap(), spe()).unwrap(),
            1 => E::ite(E::cmpltu(spe(), c(rng)).unwrap(), spe(), E::add(spe(), c(rng)).unwrap()).unwrap(),
            _ => E::modu(spe(), E::Constant(il::const_(rng.range(3, 17), w))).unwrap(),
        };
        return (Operation::assign(sp.clone(), e), Kind::NonAffine("ite-mod"));
    }
    if k < 80 && !others.is_empty() {
        let o = E::Scalar(rng.pick(others).clone());
        return match rng.below(3) {
            0 => (Operation::assign(sp.clone(), o), Kind::Copy),
            1 => (Operation::assign(sp.clone(), E::add(o, c(rng)).unwrap()), Kind::Copy),
            _ => (Operation::assign(sp.clone(), E::add(spe(), o).unwrap()), Kind::Mixed),
        };
    }
    if k < 84 {
        return (Operation::assign(sp.clone(), c(rng)), Kind::Copy);
    }
    if k < 92 {
        let idx = if rng.chance(1, 2) { spe() } else { E::add(spe(), c(rng)).unwrap() };
        return (Operation::load(sp.clone(), idx), Kind::Load);
    }
    if div0 {
        let z = E::Constant(il::const_(0, w));
        let e = if rng.chance(1, 2) { E::divu(spe(), z).unwrap() } else { E::modu(spe(), z).unwrap() };
        return (Operation::assign(sp.clone(), e), Kind::Div0);
    }
    (Operation::assign(sp.clone(), E::sub(spe(), c(rng)).unwrap()), Kind::Affine)
}

fn push_op(block: &mut il::Block, op: Operation) {
    match op {
        Operation::Assign { dst, src } => block.assign(dst, src),
        Operation::Store { index, src } => block.store(index, src),
        Operation::Load { dst, index } => block.load(dst, index),
        Operation::Branch { target } => block.branch(target),
        Operation::Intrinsic { intrinsic } => block.intrinsic(intrinsic),
        Operation::Nop { .. } => block.nop(),
    }
}

/// a random function over the architecture's stack pointer and a few registers of its width
fn build_il(rng: &mut Rng, sp: &Scalar, div0: bool) -> (Function, Kind, bool) {
    let w = sp.bits();
    let mut g = GenCfg::default();
    // other names: a frame pointer and two registers of the same width, a flag
    g.names = vec![("fp".into(), w), ("r0".into(), w), ("r2".into(), w), ("zf".into(), 1)];
    g.max_blocks = rng.range(1, 6) as usize;
    g.max_instrs = rng.range(1, 4) as usize;
    g.expr_depth = 1;
    g.branch = rng.chance(1, 10);
    g.intrinsic = rng.chance(1, 4);
    g.mem = rng.chance(2, 3);
    g.partition_guards = rng.chance(3, 4);
    g.unreachable = rng.chance(1, 3);
    g.entry_in_loop = rng.chance(1, 8);
    g.addresses = false;
    g.addr_bits = w;
    g.allow_div = false;
    let others: Vec<Scalar> = vec![il::scalar("fp", w), il::scalar("r0", w)];
    // ops may also READ the stack pointer (fp := sp, stores through sp): a second config that knows sp
    let mut gs = g.clone();
    gs.names.push((sp.name().to_string(), w));
    let sp_density = rng.range(1, 3);
    let n = rng.range(1, g.max_blocks as u64) as usize;
    let mut cfg = ControlFlowGraph::new();
    let mut kind = Kind::None;
    for _ in 0..n {
        let empty = g.empty_blocks && rng.chance(1, 7);
        let k = if empty { 0 } else { rng.range(1, g.max_instrs as u64) };
        let mut ops = Vec::new();
        for _ in 0..k {
            if rng.below(4) < sp_density {
                let (op, kd) = sp_update(rng, sp, &others, div0);
                kind = kind.max(kd);
                ops.push(op);
            } else {
                let use_sp = rng.chance(1, 2);
                let mut op = gen_op(rng, if use_sp { &gs } else { &g });
                // genil may pick the stack pointer as a destination (gs): classify it
                let writes_sp = match &op {
                    Operation::Assign { dst, .. } | Operation::Load { dst, .. } => dst == sp,
                    _ => false,
                };
                if writes_sp {
                    op = Operation::assign(il::scalar("fp", w), E::Scalar(sp.clone()));
                }
                ops.push(op);
            }
        }
        let block = cfg.new_block().unwrap();
        // sometimes leave a gap in the instruction indices (a nop that is removed again with
        // `Block::remove_instruction`): index != position, as after any editing pass
        let gap = if ops.len() >= 2 && rng.chance(1, 5) { Some(rng.below(ops.len() as u64) as usize) } else { None };
        for (i, op) in ops.into_iter().enumerate() {
            if gap == Some(i) {
                block.nop();
            }
            push_op(block, op);
        }
        if let Some(i) = gap {
            block.remove_instruction(i).unwrap();
        }
    }
    let entry = 0usize;
    for h in 0..n {
        let deg = match rng.below(10) {
            0 => 0,
            1..=4 => 1,
            5..=8 => 2,
            _ => 3,
        };
        let mut tails: Vec<usize> = Vec::new();
        if h + 1 < n && (!g.unreachable || rng.chance(9, 10)) && deg > 0 {
            tails.push(h + 1);
        }
        let mut tries = 0;
        while tails.len() < deg && tries < 10 {
            tries += 1;
            let t = rng.below(n as u64) as usize;
            if tails.contains(&t) || (t == entry && !g.entry_in_loop) {
                continue;
            }
            tails.push(t);
        }
        let guards = if g.partition_guards {
            partition_guards(rng, &g, tails.len())
        } else {
            tails.iter().map(|_| if rng.chance(1, 4) { None } else { Some(gen_expr(rng, &g, 1, 1)) }).collect()
        };
        for (t, c) in tails.iter().zip(guards) {
            match c {
                None => cfg.unconditional_edge(h, *t).unwrap(),
                Some(c) => cfg.conditional_edge(h, *t, c).unwrap(),
            }
        }
    }
    cfg.set_entry(entry).unwrap();
    cfg.set_exit(n - 1).unwrap();
    let entry_loop = !cfg.edges_in(entry).map(|e| e.is_empty()).unwrap_or(true);
    let _ = rand_const;
    (Function::new(0x1000, cfg), kind, entry_loop)
}

// ---------------------------------------------------------------- generator: machine code

struct Isa {
    /// straight-line pieces: (name, bytes, balanced?) — `balanced` pieces leave the stack pointer where it was
    pieces: Vec<(&'static str, Vec<u8>)>,
    ret: Vec<u8>,
    /// conditional branch over `skip` bytes that follow it (forward) — returns the bytes of compare+branch(+delay)
    cond_fwd: fn(usize) -> Vec<u8>,
    /// unconditional branch over `skip` bytes that follow it
    jump_fwd: fn(usize) -> Vec<u8>,
    /// conditional branch back to `back` bytes before its own start
    cond_back: fn(usize) -> Vec<u8>,
}

fn be(w: u32) -> Vec<u8> {
    w.to_be_bytes().to_vec()
}
fn le(w: u32) -> Vec<u8> {
    w.to_le_bytes().to_vec()
}
fn words(ws: &[u32], big: bool) -> Vec<u8> {
    ws.iter().flat_map(|w| if big { be(*w) } else { le(*w) }).collect()
}

fn x86_isa(amd64: bool) -> Isa {
    let rex = |mut v: Vec<u8>| -> Vec<u8> {
        if amd64 {
            v.insert(0, 0x48);
        }
        v
    };
    let pieces: Vec<(&'static str, Vec<u8>)> = vec![
        ("push-bp", vec![0x55]),
        ("pop-bp", vec![0x5d]),
        ("push-ax", vec![0x50]),
        ("pop-ax", vec![0x58]),
        ("push-imm", vec![0x6a, 0x01]),
        ("mov-bp-sp", rex(vec![0x89, 0xe5])),
        ("mov-sp-bp", rex(vec![0x89, 0xec])),
        ("sub-sp", rex(vec![0x83, 0xec, 0x10])),
        ("add-sp", rex(vec![0x83, 0xc4, 0x10])),
        ("sub-sp32", rex(vec![0x81, 0xec, 0x00, 0x01, 0x00, 0x00])),
        ("add-sp32", rex(vec![0x81, 0xc4, 0x00, 0x01, 0x00, 0x00])),
        ("and-sp", rex(vec![0x83, 0xe4, 0xf0])),
        ("lea-sp-sp8", rex(vec![0x8d, 0x64, 0x24, 0x08])),
        ("lea-sp-spm8", rex(vec![0x8d, 0x64, 0x24, 0xf8])),
        ("lea-sp-bp", rex(vec![0x8d, 0x65, 0xf8])),
        ("leave", vec![0xc9]),
        ("mov-ax-sp", rex(vec![0x89, 0xe0])),
        ("store-sp", rex(vec![0x89, 0x44, 0x24, 0x04])),
        ("load-sp", rex(vec![0x8b, 0x44, 0x24, 0x04])),
        ("xchg-sp-ax", rex(vec![0x94])),
        ("mov-sp-mem", rex(vec![0x8b, 0x20])),
        ("inc-ax", if amd64 { vec![0x48, 0xff, 0xc0] } else { vec![0x40] }),
    ];
    fn cf32(skip: usize) -> Vec<u8> {
        vec![0x85, 0xc0, 0x74, skip as u8]
    }
    fn cf64(skip: usize) -> Vec<u8> {
        vec![0x48, 0x85, 0xc0, 0x74, skip as u8]
    }
    fn jf(skip: usize) -> Vec<u8> {
        vec![0xeb, skip as u8]
    }
    fn cb32(back: usize) -> Vec<u8> {
        // test eax,eax ; jnz -(back+4)
        vec![0x85, 0xc0, 0x75, (-((back + 4) as i64)) as u8]
    }
    fn cb64(back: usize) -> Vec<u8> {
        vec![0x48, 0x85, 0xc0, 0x75, (-((back + 5) as i64)) as u8]
    }
    Isa {
        pieces,
        ret: vec![0xc3],
        cond_fwd: if amd64 { cf64 } else { cf32 },
        jump_fwd: jf,
        cond_back: if amd64 { cb64 } else { cb32 },
    }
}

fn mips_isa(big: bool) -> Isa {
    let p = |ws: &[u32]| words(ws, big);
    let pieces: Vec<(&'static str, Vec<u8>)> = vec![
        ("addiu-sp-m32", p(&[0x27bdffe0])),
        ("addiu-sp-32", p(&[0x27bd0020])),
        ("addiu-sp-m8", p(&[0x27bdfff8])),
        ("addiu-sp-8", p(&[0x27bd0008])),
        ("sw-ra", p(&[0xafbf001c])),
        ("lw-ra", p(&[0x8fbf001c])),
        ("sw-fp", p(&[0xafbe0018])),
        ("move-fp-sp", p(&[0x03a0f025])),
        ("move-sp-fp", p(&[0x03c0e825])),
        ("addu-sp-fp", p(&[0x03c0e821])),
        ("lw-sp", p(&[0x8c9d0000])),
        ("addiu-a0", p(&[0x24840001])),
        ("ori-sp", p(&[0x37bd0007])),
        ("nop", p(&[0x00000000])),
    ];
    fn cfb(skip: usize) -> Vec<u8> {
        // beq $a0,$zero,+skip ; nop     (offset counted from the delay slot)
        words(&[0x10800000 | (((skip / 4) + 1) as u32 & 0xffff), 0], true)
    }
    fn cfl(skip: usize) -> Vec<u8> {
        words(&[0x10800000 | (((skip / 4) + 1) as u32 & 0xffff), 0], false)
    }
    fn jfb(skip: usize) -> Vec<u8> {
        words(&[0x10000000 | (((skip / 4) + 1) as u32 & 0xffff), 0], true)
    }
    fn jfl(skip: usize) -> Vec<u8> {
        words(&[0x10000000 | (((skip / 4) + 1) as u32 & 0xffff), 0], false)
    }
    fn cbb(back: usize) -> Vec<u8> {
        // bne $a0,$zero,-(back/4 + 1) ; nop
        words(&[0x14800000 | ((-(((back / 4) + 1) as i32)) as u32 & 0xffff), 0], true)
    }
    fn cbl(back: usize) -> Vec<u8> {
        words(&[0x14800000 | ((-(((back / 4) + 1) as i32)) as u32 & 0xffff), 0], false)
    }
    Isa {
        pieces,
        ret: p(&[0x03e00008, 0x00000000]),
        cond_fwd: if big { cfb } else { cfl },
        jump_fwd: if big { jfb } else { jfl },
        cond_back: if big { cbb } else { cbl },
    }
}

fn ppc_isa() -> Isa {
    let p = |ws: &[u32]| words(ws, true);
    let pieces: Vec<(&'static str, Vec<u8>)> = vec![
        ("stwu-r1-m32", p(&[0x9421ffe0])),
        ("addi-r1-32", p(&[0x38210020])),
        ("addi-r1-m16", p(&[0x3821fff0])),
        ("addi-r1-16", p(&[0x38210010])),
        ("mflr-r0", p(&[0x7c0802a6])),
        ("stw-r0", p(&[0x90010024])),
        ("lwz-r0", p(&[0x80010024])),
        ("mtlr-r0", p(&[0x7c0803a6])),
        ("lwz-r1", p(&[0x80210000])),
        ("mr-r31-r1", p(&[0x7c3f0b78])),
        ("mr-r1-r31", p(&[0x7fe1fb78])),
        ("addi-r3", p(&[0x38630001])),
        ("stw-r31", p(&[0x93e1001c])),
    ];
    // the PPC translator lifts no conditional branch (`cmpwi` and `beq`/`bne` are rejected: "Could not find
    // register", "Unhandled instruction"), so the shapes use the unconditional `b`: code that is jumped over,
    // and a loop without exit
    fn cf(skip: usize) -> Vec<u8> {
        words(&[0x48000000 | ((skip as u32 + 4) & 0x03fffffc)], true)
    }
    fn jf(skip: usize) -> Vec<u8> {
        words(&[0x48000000 | ((skip as u32 + 4) & 0x03fffffc)], true)
    }
    fn cb(back: usize) -> Vec<u8> {
        words(&[0x48000000 | ((-(back as i32)) as u32 & 0x03fffffc)], true)
    }
    Isa { pieces, ret: p(&[0x4e800020]), cond_fwd: cf, jump_fwd: jf, cond_back: cb }
}

fn a64_isa() -> Isa {
    let p = |ws: &[u32]| words(ws, false);
    let pieces: Vec<(&'static str, Vec<u8>)> = vec![
        ("stp-pre", p(&[0xa9bf7bfd])),
        ("ldp-post", p(&[0xa8c17bfd])),
        ("mov-x29-sp", p(&[0x910003fd])),
        ("mov-sp-x29", p(&[0x910003bf])),
        ("sub-sp-32", p(&[0xd10083ff])),
        ("add-sp-32", p(&[0x910083ff])),
        ("sub-sp-16", p(&[0xd10043ff])),
        ("add-sp-16", p(&[0x910043ff])),
        ("str-x0-sp", p(&[0xf90007e0])),
        ("ldr-x0-sp", p(&[0xf94007e0])),
        ("str-pre", p(&[0xf81f0fe0])),
        ("ldr-post", p(&[0xf84107e0])),
        ("add-x0", p(&[0x91000400])),
        ("and-sp", p(&[0x927cec1f])),
    ];
    fn cf(skip: usize) -> Vec<u8> {
        // cbz x0, +(skip+4)
        words(&[0xb4000000 | ((((skip as u32 + 4) / 4) & 0x7ffff) << 5)], false)
    }
    fn jf(skip: usize) -> Vec<u8> {
        words(&[0x14000000 | (((skip as u32 + 4) / 4) & 0x03ffffff)], false)
    }
    fn cb(back: usize) -> Vec<u8> {
        // cbnz x0, -back
        words(&[0xb5000000 | ((((-(back as i32)) / 4) as u32 & 0x7ffff) << 5)], false)
    }
    Isa { pieces, ret: p(&[0xd65f03c0]), cond_fwd: cf, jump_fwd: jf, cond_back: cb }
}

fn isa(an: &str) -> Isa {
    match an {
        "x86" => x86_isa(false),
        "amd64" => x86_isa(true),
        "mips" => mips_isa(true),
        "mipsel" => mips_isa(false),
        "ppc" => ppc_isa(),
        _ => a64_isa(),
    }
}

fn seq(rng: &mut Rng, isa: &Isa, max: u64, names: &mut Vec<&'static str>) -> Vec<u8> {
    let k = rng.below(max + 1);
    let mut out = Vec::new();
    for _ in 0..k {
        let (n, b) = rng.pick(&isa.pieces);
        names.push(n);
        out.extend_from_slice(b);
    }
    out
}

/// straight | diamond | loop, out of the idiom pieces
fn build_mc(rng: &mut Rng, isa: &Isa) -> (Vec<u8>, &'static str, Vec<&'static str>) {
    let mut names = Vec::new();
    match rng.below(10) {
        0..=4 => {
            let mut b = seq(rng, isa, 6, &mut names);
            b.extend_from_slice(&isa.ret);
            (b, "straight", names)
        }
        5..=7 => {
            let pre = seq(rng, isa, 2, &mut names);
            let a = seq(rng, isa, 3, &mut names);
            let bb = seq(rng, isa, 3, &mut names);
            let post = seq(rng, isa, 2, &mut names);
            let j = (isa.jump_fwd)(bb.len());
            let c = (isa.cond_fwd)(a.len() + j.len());
            let mut out = pre;
            out.extend(c);
            out.extend(a);
            out.extend(j);
            out.extend(bb);
            out.extend(post);
            out.extend_from_slice(&isa.ret);
            (out, "diamond", names)
        }
        _ => {
            let pre = seq(rng, isa, 2, &mut names);
            let body = seq(rng, isa, 3, &mut names);
            let post = seq(rng, isa, 2, &mut names);
            let c = (isa.cond_back)(body.len());
            let mut out = pre;
            out.extend(body);
            out.extend(c);
            out.extend(post);
            out.extend_from_slice(&isa.ret);
            (out, "loop", names)
        }
    }
}

/// what the idioms used do to the stack pointer: the class of a machine-code case
fn mc_kind(names: &[&'static str]) -> &'static str {
    let has = |p: &str| names.iter().any(|n| n.starts_with(p));
    if has("and-sp") || has("ori-sp") {
        "align"
    } else if has("xchg-sp") || has("mov-sp-mem") || has("lw-sp") || has("lwz-r1") {
        "load"
    } else if has("mov-sp-") || has("move-sp") || has("addu-sp") || has("mr-r1") || has("lea-sp-bp") || has("leave") {
        "frame"
    } else {
        "affine"
    }
}

// ---------------------------------------------------------------- generate

fn generate(tier: Tier, rng: &mut Rng, emit: &mut Emit) {
    let (n_il, n_mc) = match tier {
        Tier::Quick => (700, 250),     // per architecture
        Tier::Thorough => (20000, 8000), // per architecture and seed (8 seeds)
    };
    for an in ARCHS.iter() {
        let a = arch(an).unwrap();
        let sp = a.stack_pointer();
        for i in 0..n_il {
            let (f, kind, entry_loop) = build_il(rng, &sp, i % 25 == 24);
            let cls = format!("{}/il/{}{}", an, kind_str(kind), if entry_loop { "+entryloop" } else { "" });
            emit.case(&cls, format!("il {} {}", an, function_str(&f)));
        }
        let isa = isa(an);
        for _ in 0..n_mc {
            let (bytes, shape, names) = build_mc(rng, &isa);
            // the PPC shapes are built with unconditional branches (see `ppc_isa`)
            let shape = match (*an, shape) {
                ("ppc", "diamond") => "skip",
                ("ppc", "loop") => "spin",
                (_, s) => s,
            };
            let cls = format!("{}/mc/{}/{}", an, shape, mc_kind(&names));
            emit.case(&cls, format!("mc {} {}", an, bytes_hex(&bytes)));
        }
    }
}

fn main() {
    run_main(&generate, &answer);
}
