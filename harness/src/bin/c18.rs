//! C18 — program locations navigate and round-trip consistently.
//! Requests are documented in lean/Drivers/C18.lean.
use falcon::il::{
    Function, FunctionLocation, Instruction, Program, ProgramLocation, RefFunctionLocation, RefProgramLocation,
};
use fvh::canon::err_str;
use fvh::fil::{function_str, program_str, read_function, read_program};
use fvh::genil::{gen_function, GenCfg};
use fvh::sx::{parse_all, Sx};
use fvh::{run_main, Emit, Rng, Tier};
use std::collections::HashSet;

fn opt_hex(a: Option<u64>) -> String {
    match a {
        None => "-".to_string(),
        Some(a) => format!("0x{:x}", a),
    }
}

fn loc_str(l: &RefFunctionLocation) -> String {
    match l {
        RefFunctionLocation::Instruction(b, i) => format!("I{}:{}:{}", b.index(), i.index(), opt_hex(i.address())),
        RefFunctionLocation::Edge(e) => format!("E{}-{}", e.head(), e.tail()),
        RefFunctionLocation::EmptyBlock(b) => format!("B{}", b.index()),
    }
}

fn loc_key(l: &RefFunctionLocation) -> (u64, u64, u64, u64) {
    match l {
        RefFunctionLocation::Instruction(b, i) => {
            (0, b.index() as u64, i.index() as u64, i.address().map(|a| a + 1).unwrap_or(0))
        }
        RefFunctionLocation::Edge(e) => (1, e.head() as u64, e.tail() as u64, 0),
        RefFunctionLocation::EmptyBlock(b) => (2, b.index() as u64, 0, 0),
    }
}

fn ploc_str(l: &RefProgramLocation) -> String {
    let fi = l.function().index().map(|i| i.to_string()).unwrap_or_else(|| "-".to_string());
    format!("F{}/{}", fi, loc_str(l.function_location()))
}

fn list_str(xs: Vec<String>) -> String {
    format!("[{}]", xs.join(","))
}

fn locs_res(r: Result<Vec<RefProgramLocation>, falcon::Error>) -> String {
    match r {
        Ok(v) => list_str(v.iter().map(|l| loc_str(l.function_location())).collect()),
        Err(e) => err_str(&e).to_string(),
    }
}

fn from_fn_str(f: &Function) -> String {
    match RefProgramLocation::from_function(f) {
        None => "none".to_string(),
        Some(Ok(l)) => loc_str(l.function_location()),
        Some(Err(e)) => err_str(&e).to_string(),
    }
}

fn nav(f: &Function) -> String {
    let mut parts = vec![format!("from={}", from_fn_str(f))];
    for l in f.locations() {
        let pl = RefProgramLocation::new(f, l.clone());
        parts.push(format!("{} f={} b={}", loc_str(&l), locs_res(pl.forward()), locs_res(pl.backward())));
    }
    parts.join(" ; ")
}

fn locs(f: &Function) -> String {
    f.locations().iter().map(loc_str).collect::<Vec<_>>().join(" ")
}

/// closure of falcon's own `forward()` from `from_function`
fn reach(f: &Function) -> String {
    match RefProgramLocation::from_function(f) {
        None => "none".to_string(),
        Some(Err(e)) => err_str(&e).to_string(),
        Some(Ok(l0)) => {
            let mut seen: HashSet<RefProgramLocation> = HashSet::new();
            let mut out: Vec<RefProgramLocation> = Vec::new();
            let mut todo = vec![l0];
            while let Some(x) = todo.pop() {
                if seen.contains(&x) {
                    continue;
                }
                seen.insert(x.clone());
                if let Ok(v) = x.forward() {
                    todo.extend(v);
                }
                out.push(x);
            }
            out.sort_by_key(|l| loc_key(l.function_location()));
            out.iter().map(|l| loc_str(l.function_location())).collect::<Vec<_>>().join(" ")
        }
    }
}

fn rtf(f: &Function) -> String {
    let mut parts = Vec::new();
    for l in f.locations() {
        let o: FunctionLocation = l.clone().into();
        let r = match o.apply(f) {
            Ok(r) => format!("{}{}", loc_str(&r), if r == l { "" } else { "!" }),
            Err(e) => err_str(&e).to_string(),
        };
        parts.push(format!("{} -> {}", loc_str(&l), r));
    }
    parts.join(" ; ")
}

fn rt(p: &Program) -> String {
    let clone = p.clone();
    let mut parts = Vec::new();
    for f in p.functions() {
        for l in f.locations() {
            let pl = RefProgramLocation::new(f, l);
            let o: ProgramLocation = pl.clone().into();
            let show = |q: &Program| match o.apply(q) {
                Ok(r) => format!("{}{}", ploc_str(&r), if r == pl { "" } else { "!" }),
                Err(e) => err_str(&e).to_string(),
            };
            parts.push(format!("{} -> {} {}", ploc_str(&pl), show(p), show(&clone)));
        }
    }
    parts.join(" ; ")
}

fn mig(p: &Program, q: &Program) -> String {
    let mut parts = Vec::new();
    for f in p.functions() {
        for l in f.locations() {
            let pl = RefProgramLocation::new(f, l);
            let r = match fvh::canon::catch(|| pl.migrate(q).map(|r| ploc_str(&r))) {
                None => "panic".to_string(),
                Some(Ok(s)) => s,
                Some(Err(e)) => err_str(&e).to_string(),
            };
            parts.push(format!("{} -> {}", ploc_str(&pl), r));
        }
    }
    parts.join(" ; ")
}

fn read_oloc(xs: &[Sx]) -> Option<FunctionLocation> {
    match (xs.first()?.atom()?, &xs[1..]) {
        ("i", [b, k]) => Some(FunctionLocation::Instruction(b.usize()?, k.usize()?)),
        ("e", [h, t]) => Some(FunctionLocation::Edge(h.usize()?, t.usize()?)),
        ("b", [b]) => Some(FunctionLocation::EmptyBlock(b.usize()?)),
        _ => None,
    }
}

fn answer(line: &str) -> String {
    let bad = "bad-request".to_string();
    let xs = match parse_all(line) {
        Some(xs) => xs,
        None => return bad,
    };
    let head = xs.first().and_then(|x| x.atom()).unwrap_or("");
    match (head, &xs[1..]) {
        ("nav", [x]) => read_function(x).map(|f| nav(&f)).unwrap_or(bad),
        ("locs", [x]) => read_function(x).map(|f| locs(&f)).unwrap_or(bad),
        ("reach", [x]) => read_function(x).map(|f| reach(&f)).unwrap_or(bad),
        ("rtf", [x]) => read_function(x).map(|f| rtf(&f)).unwrap_or(bad),
        ("rt", [x]) => read_program(x).map(|p| rt(&p)).unwrap_or(bad),
        ("mig", [x, y]) => match (read_program(x), read_program(y)) {
            (Some(p), Some(q)) => mig(&p, &q),
            _ => bad,
        },
        ("addr", rest) if !rest.is_empty() => {
            let p = match read_program(&rest[0]) {
                Some(p) => p,
                None => return bad,
            };
            let mut parts = Vec::new();
            for a in &rest[1..] {
                let a = match a.u64() {
                    Some(a) => a,
                    None => return bad,
                };
                parts.push(match RefProgramLocation::from_address(&p, a) {
                    None => "none".to_string(),
                    Some(l) => ploc_str(&l),
                });
            }
            parts.join(" ; ")
        }
        ("apply", rest) if rest.len() >= 3 => {
            let p = match read_program(&rest[0]) {
                Some(p) => p,
                None => return bad,
            };
            let fi = match rest[1].atom() {
                Some("-") => None,
                _ => match rest[1].usize() {
                    Some(i) => Some(i),
                    None => return bad,
                },
            };
            let o = match read_oloc(&rest[2..]) {
                Some(o) => o,
                None => return bad,
            };
            match ProgramLocation::new(fi, o).apply(&p) {
                Ok(l) => ploc_str(&l),
                Err(e) => err_str(&e).to_string(),
            }
        }
        _ => bad,
    }
}

// ------------------------------------------------------------------------------------------------
// generator

struct Shape {
    empty: bool,
    multi: bool,
    selfloop: bool,
    unreachable: bool,
    dupidx: bool,
}

fn shape(f: &Function) -> Shape {
    let cfg = f.control_flow_graph();
    let mut s = Shape { empty: false, multi: false, selfloop: false, unreachable: false, dupidx: false };
    for b in cfg.blocks() {
        if b.is_empty() {
            s.empty = true;
        }
        let i = cfg.edges_in(b.index()).map(|e| e.len()).unwrap_or(0);
        let o = cfg.edges_out(b.index()).map(|e| e.len()).unwrap_or(0);
        if i >= 2 && o >= 2 {
            s.multi = true;
        }
        if cfg.edge(b.index(), b.index()).is_ok() {
            s.selfloop = true;
        }
        let mut idx: Vec<usize> = b.instructions().iter().map(|i| i.index()).collect();
        idx.sort();
        let n = idx.len();
        idx.dedup();
        if idx.len() != n {
            s.dupidx = true;
        }
    }
    if let Some(e) = cfg.entry() {
        if let Ok(r) = cfg.graph().reachable_vertices(e) {
            if r.len() + 1 < cfg.blocks().len() + 1 && r.len() < cfg.blocks().len() {
                s.unreachable = true;
            }
        }
    }
    s
}

fn shape_str(ss: &[Shape]) -> String {
    let any = |p: &dyn Fn(&Shape) -> bool| ss.iter().any(|s| p(s));
    let mut t = String::new();
    t.push_str(if any(&|s| s.dupidx) { "dupidx" } else { "wf" });
    t.push('/');
    if any(&|s| s.empty) {
        t.push('e');
    }
    if any(&|s| s.multi) {
        t.push('m');
    }
    if any(&|s| s.selfloop) {
        t.push('s');
    }
    if any(&|s| s.unreachable) {
        t.push('u');
    }
    if t.ends_with('/') {
        t.push('0');
    }
    t
}

fn gen_cfg_params(rng: &mut Rng) -> GenCfg {
    GenCfg {
        names: vec![("a".into(), 32), ("b".into(), 32), ("f".into(), 1)],
        max_blocks: *rng.pick(&[1, 2, 3, 5, 8]),
        max_instrs: *rng.pick(&[1, 2, 4]),
        expr_depth: 1,
        mem: false,
        branch: rng.chance(1, 4),
        intrinsic: false,
        partition_guards: false,
        self_loops: true,
        unreachable: rng.chance(1, 2),
        empty_blocks: rng.chance(3, 4),
        addr_bits: 32,
        addresses: true,
        entry_in_loop: true,
        allow_div: false,
        index_gaps: true,
        rejected_edges: true,
    }
}

/// a function built through falcon's API, then perturbed: missing addresses, removed instructions (gaps in
/// the instruction indices), merged blocks (gaps in the block indices), and — `ill` — duplicate
/// instruction indices pushed through `instructions_mut()`
fn gen_fn(rng: &mut Rng, ill: bool) -> Function {
    let g = gen_cfg_params(rng);
    let f = gen_function(rng, &g);
    let addr = f.address();
    let mut cfg = f.control_flow_graph().clone();
    if rng.chance(1, 4) {
        let before = cfg.clone();
        if cfg.merge().is_err() || cfg.exit().map(|x| cfg.block(x).is_err()).unwrap_or(false)
            || cfg.entry().map(|x| cfg.block(x).is_err()).unwrap_or(false)
        {
            cfg = before;
        }
    }
    for b in cfg.blocks_mut() {
        if rng.chance(1, 5) {
            let idxs: Vec<usize> = b.instructions().iter().map(|i| i.index()).collect();
            if !idxs.is_empty() {
                let k = *rng.pick(&idxs);
                let _ = b.remove_instruction(k);
            }
        }
        for ins in b.instructions_mut() {
            if rng.chance(1, 8) {
                ins.set_address(None);
            }
        }
    }
    if ill {
        let n = rng.range(1, 2);
        for _ in 0..n {
            let mut blocks = cfg.blocks_mut();
            let k = rng.below(blocks.len() as u64) as usize;
            let b = &mut blocks[k];
            let idxs: Vec<usize> = b.instructions().iter().map(|i| i.index()).collect();
            if idxs.is_empty() {
                continue;
            }
            let dup = *rng.pick(&idxs);
            let mut ins = Instruction::nop(dup);
            ins.set_address(Some(0x9000 + rng.below(16)));
            let pos = rng.below(idxs.len() as u64 + 1) as usize;
            b.instructions_mut().insert(pos, ins);
        }
    }
    let faddr = match rng.below(6) {
        0 => addr + 0x100,
        1 => 0,
        2 => addr.saturating_sub(4),
        _ => addr,
    };
    Function::new(faddr, cfg)
}

/// 1–4 functions; bases in random order (address order differs from index order), sometimes overlapping
fn gen_prog(rng: &mut Rng, ill: bool) -> Program {
    let n = rng.range(1, 4) as usize;
    let mut bases: Vec<u64> = (0..n as u64).map(|i| 0x1000 + 0x40 * i).collect();
    for i in (1..n).rev() {
        let j = rng.below(i as u64 + 1) as usize;
        bases.swap(i, j);
    }
    let mut p = Program::new();
    for (i, base) in bases.iter().enumerate() {
        let ill_here = ill && (i == 0 || rng.chance(1, 2));
        let f = gen_fn(rng, ill_here);
        let base = if rng.chance(1, 6) { 0x1000 } else { *base };
        let mut cfg = f.control_flow_graph().clone();
        for b in cfg.blocks_mut() {
            for ins in b.instructions_mut() {
                let a = ins.address().map(|a| if a >= 0x9000 { a } else { a - 0x1000 + base });
                ins.set_address(a);
            }
        }
        let fa = if f.address() >= 0x1000 { f.address() - 0x1000 + base } else { f.address() };
        p.add_function(Function::new(fa, cfg));
    }
    p
}

/// in a quarter of the programs the functions carry, in the TEXT, an index other than their position (as a function
/// cloned out of another program does, or none at all): `add_function` must give them the next free index of the program
/// they are added to, and every owned location must be relative to that
fn stale_indices(rng: &mut Rng, ps: String) -> String {
    if !rng.chance(1, 4) {
        return ps;
    }
    let mut out = String::new();
    for (k, part) in ps.split("(fn ").enumerate() {
        if k == 0 {
            out.push_str(part);
            continue;
        }
        // part = "<addr> <index> <rest…>"
        let mut it = part.splitn(3, ' ');
        let (addr, idx, rest) = (it.next().unwrap_or(""), it.next().unwrap_or(""), it.next().unwrap_or(""));
        let new_idx = match rng.below(3) {
            0 => "-".to_string(),
            1 => format!("{}", idx.parse::<u64>().unwrap_or(0) + 1 + rng.below(3)),
            _ => idx.to_string(),
        };
        out.push_str(&format!("(fn {} {} {}", addr, new_idx, rest));
    }
    out
}

fn prog_addresses(rng: &mut Rng, p: &Program) -> Vec<u64> {
    let mut present: Vec<u64> = Vec::new();
    for f in p.functions() {
        present.push(f.address());
        for b in f.blocks() {
            for i in b.instructions() {
                if let Some(a) = i.address() {
                    present.push(a);
                }
            }
        }
    }
    present.sort();
    present.dedup();
    let mut out: Vec<u64> = Vec::new();
    for _ in 0..10 {
        if present.is_empty() {
            break;
        }
        let a = *rng.pick(&present);
        out.push(match rng.below(6) {
            0 => a + 1,
            1 => a.saturating_sub(1),
            2 => a + 4,
            _ => a,
        });
    }
    out.push(rng.below(0x3000));
    out.push(0);
    out.push(u64::MAX);
    out.sort();
    out.dedup();
    out
}

fn generate(tier: Tier, rng: &mut Rng, em: &mut Emit) {
    let n = match tier {
        Tier::Quick => 2500,
        Tier::Thorough => 30000,
    };
    for k in 0..n {
        let ill = k % 5 == 4;
        // function-level requests
        let f = gen_fn(rng, ill);
        let fs = function_str(&f);
        let sh = shape_str(&[shape(&f)]);
        em.case(&format!("nav/{}", sh), format!("nav {}", fs));
        em.case(&format!("locs/{}", sh), format!("locs {}", fs));
        em.case(&format!("reach/{}", sh), format!("reach {}", fs));
        em.case(&format!("rtf/{}", sh), format!("rtf {}", fs));
        // program-level requests
        let p = gen_prog(rng, ill);
        let ps = stale_indices(rng, program_str(&p));
        let shapes: Vec<Shape> = p.functions().iter().map(|f| shape(f)).collect();
        let sh = shape_str(&shapes);
        em.case(&format!("rt/{}", sh), format!("rt {}", ps));
        let addrs = prog_addresses(rng, &p);
        let astr: Vec<String> = addrs.iter().map(|a| format!("0x{:x}", a)).collect();
        em.case(&format!("addr/{}", sh), format!("addr {} {}", ps, astr.join(" ")));
        for _ in 0..3 {
            let fi = match rng.below(8) {
                0 => "-".to_string(),
                _ => rng.below(p.functions().len() as u64 + 1).to_string(),
            };
            let (kind, o) = match rng.below(3) {
                0 => ("i", format!("i {} {}", rng.below(9), rng.below(7))),
                1 => ("e", format!("e {} {}", rng.below(9), rng.below(9))),
                _ => ("b", format!("b {}", rng.below(9))),
            };
            em.case(&format!("apply/{}", kind), format!("apply {} {} {}", ps, fi, o));
        }
        if k % 2 == 0 {
            let (cls, q) = if rng.chance(1, 2) { ("same", p.clone()) } else { ("other", gen_prog(rng, ill)) };
            em.case(&format!("mig/{}/{}", cls, sh), format!("mig {} {}", ps, program_str(&q)));
        }
    }
}

fn main() {
    run_main(&generate, &answer);
}
