//! C14 — dead-code elimination preserves observable behaviour (pattern P3: verified checker).
//!
//! request  = one IL function `f` in FIL
//! answer   = `<g in FIL> | x=<same|diff:…>` where `g = analysis::dead_code_elimination(&f)` (the REAL code) and the
//!            x field is a side-by-side execution of `f` and `g` with falcon's own executor
//!            (`executor::State::execute`, guards through `symbolize_and_eval`) from a few initial states;
//!            `panic` if the call panics, `err:<kind>` if it returns an error.
//! The Lean driver (lean/Drivers/C14.lean) receives request and answer and runs the verified checker on them.
use falcon::analysis::dead_code_elimination;
use falcon::architecture::Endian;
use falcon::executor::{Memory, State, SuccessorType};
use falcon::il::{self, Expression as E, Function, Operation};
use fvh::canon::{catch, err_str};
use fvh::fil::{function_str, read_function};
use fvh::genil::{gen_function, GenCfg};
use fvh::sx::parse_all;
use fvh::{run_main, Emit, Rng, Tier};

// ---------------------------------------------------------------- falcon's executor, f and g side by side

fn universe(f: &Function) -> Vec<(String, usize)> {
    let mut v: Vec<(String, usize)> = Vec::new();
    let mut add = |s: &il::Scalar| {
        if !v.iter().any(|(n, _)| n == s.name()) {
            v.push((s.name().to_string(), s.bits()));
        }
    };
    for b in f.blocks() {
        for i in b.instructions() {
            if let Some(ss) = i.operation().scalars_written() {
                ss.into_iter().for_each(&mut add);
            }
            if let Some(ss) = i.operation().scalars_read() {
                ss.into_iter().for_each(&mut add);
            }
        }
    }
    for e in f.edges() {
        if let Some(c) = e.condition() {
            c.scalars().into_iter().for_each(&mut add);
        }
    }
    v
}

fn mix(a: u64, b: u64) -> u64 {
    let mut r = Rng(a ^ b.wrapping_mul(0x9E37_79B9_7F4A_7C15));
    r.next()
}

thread_local! {
    static MEMS: std::cell::RefCell<Vec<Memory>> = std::cell::RefCell::new(Vec::new());
}

/// the initial memory of state `k` (built once): a mapped window at the bottom of the address space and
/// one around 0x1000
fn init_memory(k: u64) -> Memory {
    MEMS.with(|m| {
        let mut m = m.borrow_mut();
        while m.len() <= k as usize {
            let kk = m.len() as u64;
            let endian = if kk % 2 == 0 { Endian::Little } else { Endian::Big };
            let mut mem = Memory::new(endian);
            for a in (0u64..0x200).chain(0x1000..0x1040) {
                mem.store(a, il::const_(mix(a, kk) & 0xff, 8)).unwrap();
            }
            m.push(mem);
        }
        m[k as usize].clone()
    })
}

fn init_state(uni: &[(String, usize)], k: u64) -> State {
    let mut st = State::new(init_memory(k));
    for (i, (n, bits)) in uni.iter().enumerate() {
        let h = mix(i as u64 + 1, k + 77);
        let v = match k {
            0 => 0,
            1 => 1,
            2 => u64::MAX,
            3 => h % 4,
            _ => match h % 4 {
                0 => h >> 8,
                1 => (h >> 8) % 256,
                2 => (h >> 8) % 2,
                _ => 0x1000 + (h >> 8) % 0x30,
            },
        };
        st.set_scalar(n.clone(), il::const_(v, *bits));
    }
    st
}

fn kind(op: &Operation) -> &'static str {
    match op {
        Operation::Assign { .. } => "assign",
        Operation::Store { .. } => "store",
        Operation::Load { .. } => "load",
        Operation::Branch { .. } => "branch",
        Operation::Intrinsic { .. } => "intrinsic",
        Operation::Nop { .. } => "nop",
    }
}

fn scalars_differ(uni: &[(String, usize)], a: &State, b: &State) -> Option<String> {
    uni.iter().find(|(n, _)| a.get_scalar(n) != b.get_scalar(n)).map(|(n, _)| n.clone())
}

fn ev(st: &State, e: &E) -> Option<il::Constant> {
    st.symbolize_and_eval(e).ok()
}

/// first enabled out-edge in `edges_out` order
fn next_block(f: &Function, b: usize, st: &State) -> Option<usize> {
    for e in f.control_flow_graph().edges_out(b).ok()? {
        match e.condition() {
            None => return Some(e.tail()),
            Some(c) => {
                if ev(st, c).map(|v| v.is_one()).unwrap_or(false) {
                    return Some(e.tail());
                }
            }
        }
    }
    None
}

/// `Some(description)` = first observable difference
fn run_pair(f: &Function, g: &Function, uni: &[(String, usize)], k: u64) -> Option<String> {
    let mut b = f.control_flow_graph().entry()?;
    let mut pos = 0usize;
    let mut sf = init_state(uni, k);
    let mut sg = sf.clone();
    for step in 0..300 {
        let bf = f.block(b).ok()?;
        let bg = match g.block(b) {
            Ok(x) => x,
            Err(_) => return Some(format!("state={} step={} block-missing-in-g", k, step)),
        };
        let here = format!("state={} step={} at={}.{}", k, step, b, pos);
        if pos < bf.instructions().len() {
            let of = bf.instructions()[pos].operation();
            let og = match bg.instructions().get(pos) {
                Some(i) => i.operation(),
                None => return Some(format!("{} instruction-missing-in-g", here)),
            };
            match of {
                Operation::Branch { .. } | Operation::Intrinsic { .. } => {
                    if kind(of) != kind(og) {
                        return Some(format!("{} operation f={} g={}", here, kind(of), kind(og)));
                    }
                    if let Some(n) = scalars_differ(uni, &sf, &sg) {
                        return Some(format!("{} {} sees scalar {}", here, kind(of), n));
                    }
                }
                Operation::Store { index, src } => {
                    let (fa, fv) = (ev(&sf, index), ev(&sf, src));
                    let same = match og {
                        Operation::Store { index: gi, src: gs } => ev(&sg, gi) == fa && ev(&sg, gs) == fv,
                        _ => false,
                    };
                    if fa.is_some() && fv.is_some() && !same {
                        return Some(format!("{} store", here));
                    }
                }
                _ => {}
            }
            let rf = match sf.execute(of) {
                Ok(s) => s,
                Err(_) => return None, // f faults: the premise covers no more
            };
            let rg = match sg.execute(og) {
                Ok(s) => s,
                Err(_) => return Some(format!("{} g-faults-where-f-continues", here)),
            };
            match (rf.type_().clone(), rg.type_().clone()) {
                (SuccessorType::FallThrough, SuccessorType::FallThrough) => {}
                (SuccessorType::Branch(a), SuccessorType::Branch(c)) => {
                    return if a == c { None } else { Some(format!("{} branch-target", here)) };
                }
                _ => return Some(format!("{} successor-type", here)),
            }
            sf = rf.into();
            sg = rg.into();
            pos += 1;
        } else {
            let out_empty = f.control_flow_graph().edges_out(b).map(|e| e.is_empty()).unwrap_or(true);
            if out_empty {
                return scalars_differ(uni, &sf, &sg).map(|n| format!("{} exit sees scalar {}", here, n));
            }
            let nf = next_block(f, b, &sf)?;
            match next_block(g, b, &sg) {
                Some(ng) if ng == nf => {}
                other => return Some(format!("{} path f->{} g->{:?}", here, nf, other)),
            }
            b = nf;
            pos = 0;
        }
    }
    None
}

fn exec_field(f: &Function, g: &Function) -> String {
    let uni = universe(f);
    for k in 0..6 {
        match catch(|| run_pair(f, g, &uni, k)) {
            Some(Some(d)) => return format!("diff:{}", d.replace(' ', ",")),
            Some(None) => {}
            None => return "skip".to_string(), // the executor itself panicked: not this property's business
        }
    }
    "same".to_string()
}

// ---------------------------------------------------------------- answer

fn answer(req: &str) -> String {
    let f = match parse_all(req).and_then(|v| v.first().and_then(read_function)) {
        Some(f) => f,
        None => return "bad-request".to_string(),
    };
    match catch(|| dead_code_elimination(&f)) {
        None => "panic".to_string(),
        Some(Err(e)) => err_str(&e).to_string(),
        Some(Ok(g)) => format!("{} | x={}", function_str(&g), exec_field(&f, &g)),
    }
}

// ---------------------------------------------------------------- generator

fn names(ns: &[(&str, usize)]) -> Vec<(String, usize)> {
    ns.iter().map(|(n, b)| (n.to_string(), *b)).collect()
}

/// few names, long blocks: many overwritten (dead) definitions
fn dense() -> GenCfg {
    GenCfg {
        names: names(&[("a", 32), ("b", 32), ("c", 32), ("f", 1)]),
        max_blocks: 5,
        max_instrs: 8,
        expr_depth: 1,
        intrinsic: false,
        unreachable: false,
        allow_div: false,
        ..GenCfg::default()
    }
}

fn straight() -> GenCfg {
    GenCfg {
        names: names(&[("a", 32), ("b", 32), ("c", 32), ("h", 8)]),
        max_blocks: 1,
        max_instrs: 10,
        expr_depth: 1,
        intrinsic: false,
        self_loops: false,
        allow_div: false,
        ..GenCfg::default()
    }
}

fn with_branch() -> GenCfg {
    GenCfg { branch: true, names: names(&[("a", 32), ("b", 32), ("c", 32), ("f", 1), ("h", 8)]), max_instrs: 7, expr_depth: 1, ..GenCfg::default() }
}

fn intrinsics() -> GenCfg {
    GenCfg { names: names(&[("a", 32), ("b", 32), ("f", 1)]), max_blocks: 4, max_instrs: 6, expr_depth: 1, unreachable: false, ..GenCfg::default() }
}

fn free_guards() -> GenCfg {
    GenCfg { partition_guards: false, names: names(&[("a", 32), ("b", 32), ("c", 32), ("f", 1), ("g", 1)]), max_instrs: 6, intrinsic: false, ..GenCfg::default() }
}

/// hand-written shapes around the known weak points
fn directed(emit: &mut Emit) {
    let mk = |ops: Vec<Operation>| -> Function {
        let mut cfg = il::ControlFlowGraph::new();
        {
            let b = cfg.new_block().unwrap();
            for op in ops {
                match op {
                    Operation::Assign { dst, src } => b.assign(dst, src),
                    Operation::Store { index, src } => b.store(index, src),
                    Operation::Load { dst, index } => b.load(dst, index),
                    Operation::Branch { target } => b.branch(target),
                    Operation::Intrinsic { intrinsic } => b.intrinsic(intrinsic),
                    Operation::Nop { .. } => b.nop(),
                }
            }
        }
        cfg.set_entry(0).unwrap();
        cfg.set_exit(0).unwrap();
        Function::new(0x1000, cfg)
    };
    let s = |n: &str| il::scalar(n, 32);
    let es = |n: &str| il::expr_scalar(n, 32);
    let c = |v: u64| il::expr_const(v, 32);
    // c := a + b ; d := c + c ; c := 0      (the use of c reads two scalars)
    emit.case(
        "directed/use-reads-two",
        function_str(&mk(vec![
            Operation::assign(s("c"), E::add(es("a"), es("b")).unwrap()),
            Operation::assign(s("d"), E::add(es("c"), es("a")).unwrap()),
            Operation::assign(s("c"), c(0)),
        ])),
    );
    // c := 7 ; [a] := c ; c := 0            (store reads index and source)
    emit.case(
        "directed/use-is-store",
        function_str(&mk(vec![
            Operation::assign(s("c"), c(7)),
            Operation::store(es("a"), es("c")),
            Operation::assign(s("c"), c(0)),
        ])),
    );
    // c := 7 ; d := c ; c := 0              (single-scalar use: correct on the unchanged tree)
    emit.case(
        "directed/use-reads-one",
        function_str(&mk(vec![
            Operation::assign(s("c"), c(7)),
            Operation::assign(s("d"), es("c")),
            Operation::assign(s("c"), c(0)),
        ])),
    );
    // a := 1 ; syscall (effects undeclared) ; a := 2
    emit.case(
        "directed/intrinsic-undeclared",
        function_str(&mk(vec![
            Operation::assign(s("a"), c(1)),
            Operation::intrinsic(il::Intrinsic::new("syscall", "syscall", Vec::new(), None, None, vec![0x0f, 0x05])),
            Operation::assign(s("a"), c(2)),
        ])),
    );
    // intrinsic with declared writes that nobody uses
    emit.case(
        "directed/intrinsic-declared",
        function_str(&mk(vec![
            Operation::intrinsic(il::Intrinsic::new("rdtsc", "rdtsc", Vec::new(), Some(vec![es("a")]), Some(vec![]), vec![0x0f, 0x31])),
            Operation::assign(s("a"), c(2)),
        ])),
    );
    // dead load, dead assign, overwritten before the exit
    emit.case(
        "directed/dead-load",
        function_str(&mk(vec![
            Operation::load(s("a"), c(0x10)),
            Operation::assign(s("b"), c(5)),
            Operation::assign(s("a"), c(2)),
            Operation::assign(s("b"), es("a")),
        ])),
    );
    // one name at two widths: falcon's analyses identify scalars by (name, width), its executor by name
    emit.case(
        "directed/alias-width",
        function_str(&mk(vec![
            Operation::assign(s("x"), c(5)),
            Operation::assign(il::scalar("y", 8), il::expr_scalar("x", 8)),
            Operation::assign(s("x"), c(0)),
        ])),
    );
    // an unreachable block
    {
        let mut cfg = il::ControlFlowGraph::new();
        cfg.new_block().unwrap().assign(s("a"), c(1));
        cfg.new_block().unwrap().assign(s("b"), c(2));
        cfg.set_entry(0).unwrap();
        emit.case("directed/unreachable-block", function_str(&Function::new(0x1000, cfg)));
    }
    // a definition only used by a guard
    {
        let mut cfg = il::ControlFlowGraph::new();
        {
            let b = cfg.new_block().unwrap();
            b.assign(s("a"), c(1));
            b.assign(s("b"), c(3));
        }
        cfg.new_block().unwrap().assign(s("a"), c(5));
        cfg.new_block().unwrap().assign(s("a"), c(6));
        let g = E::cmpeq(es("a"), es("b")).unwrap();
        cfg.conditional_edge(0, 1, g.clone()).unwrap();
        cfg.conditional_edge(0, 2, E::cmpeq(g, il::expr_const(0, 1)).unwrap()).unwrap();
        cfg.set_entry(0).unwrap();
        emit.case("directed/guard-use", function_str(&Function::new(0x1000, cfg)));
    }
}

/// functions lifted by falcon's own amd64 translator from random sequences of real instruction
/// encodings (flag computations are mostly dead: dead-code elimination removes a lot; syscall, cpuid and
/// rdtsc are lifted to intrinsics)
fn lifted(rng: &mut Rng, emit: &mut Emit, n: usize) {
    use falcon::memory::{backing, MemoryPermissions};
    use falcon::translator::{x86::Amd64, Translator};
    let pool: Vec<Vec<u8>> = vec![
        vec![0x01, 0xd8],             // add eax, ebx
        vec![0x29, 0xc8],             // sub eax, ecx
        vec![0x31, 0xc0],             // xor eax, eax
        vec![0x48, 0x01, 0xd8],       // add rax, rbx
        vec![0x48, 0xff, 0xc0],       // inc rax
        vec![0xff, 0xc9],             // dec ecx
        vec![0x83, 0xff, 0x05],       // cmp edi, 5
        vec![0x85, 0xc0],             // test eax, eax
        vec![0x48, 0x89, 0xe5],       // mov rbp, rsp
        vec![0x89, 0x7d, 0xfc],       // mov [rbp-4], edi
        vec![0x8b, 0x45, 0xfc],       // mov eax, [rbp-4]
        vec![0x0f, 0xaf, 0xc0],       // imul eax, eax
        vec![0x50],                   // push rax
        vec![0x58],                   // pop rax
        vec![0x0f, 0x05],             // syscall
        vec![0x0f, 0xa2],             // cpuid
        vec![0x0f, 0x31],             // rdtsc
        vec![0xc1, 0xe0, 0x03],       // shl eax, 3
        vec![0xd1, 0xe8],             // shr eax, 1
        vec![0x48, 0x8d, 0x04, 0x1f], // lea rax, [rdi+rbx]
        vec![0x0f, 0xb6, 0xc3],       // movzx eax, bl
        vec![0x19, 0xd8],             // sbb eax, ebx
        vec![0x11, 0xd8],             // adc eax, ebx
        vec![0x0f, 0x94, 0xc0],       // sete al
        vec![0x0f, 0x44, 0xc3],       // cmove eax, ebx
        vec![0xb8, 0x01, 0x00, 0x00, 0x00], // mov eax, 1
        vec![0xf7, 0xd8],             // neg eax
    ];
    let jcc = [0x7fu8, 0x75, 0x74, 0x72, 0x7c]; // jg jnz je jb jl
    for _ in 0..n {
        let k = rng.range(1, 9);
        let mut bytes: Vec<u8> = Vec::new();
        for _ in 0..k {
            let ins = rng.pick(&pool).clone();
            if rng.chance(1, 5) {
                // a conditional jump over the next instruction
                bytes.push(*rng.pick(&jcc));
                bytes.push(ins.len() as u8);
            }
            bytes.extend(ins);
        }
        if rng.chance(1, 6) {
            // a backward jump to the start: a loop
            bytes.push(*rng.pick(&jcc));
            bytes.push((256 - (bytes.len() as i64 + 1)) as u8);
        }
        bytes.push(0xc3); // ret
        let mut mem = backing::Memory::new(Endian::Little);
        mem.set_memory(0x1000, bytes, MemoryPermissions::ALL);
        if let Some(Ok(f)) = catch(|| Amd64::new().translate_function(&mem, 0x1000)) {
            let s = function_str(&f);
            // only what survives the FIL round trip is a self-contained request
            if parse_all(&s).and_then(|v| v.first().and_then(read_function)).map(|f2| function_str(&f2)) == Some(s.clone()) {
                emit.case("lifted/amd64", s);
            }
        }
    }
}

fn generate(tier: Tier, rng: &mut Rng, emit: &mut Emit) {
    directed(emit);
    lifted(rng, emit, match tier {
        Tier::Quick => 300,
        Tier::Thorough => 3000,
    });
    let n = match tier {
        Tier::Quick => 1500,
        Tier::Thorough => 8000,
    };
    let streams: Vec<(&str, GenCfg)> = vec![
        ("rand/default", GenCfg::default()),
        ("rand/dense", dense()),
        ("rand/straight", straight()),
        ("rand/branch", with_branch()),
        ("rand/intrinsics", intrinsics()),
        ("rand/free-guards", free_guards()),
    ];
    for _ in 0..n {
        for (cls, g) in &streams {
            let f = gen_function(rng, g);
            emit.case(cls, function_str(&f));
        }
    }
}

fn main() {
    run_main(&generate, &answer);
}
