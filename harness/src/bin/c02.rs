//! C02 — MIPS and PowerPC lifters agree with the architecture manuals.
//!
//! Request:  `ins <arch> <hexbytes> <0xaddr> | <state>`   (state = `<l|b> ; reg=0xval:bits,… ; 0xaddr:hexbytes,…`)
//!           bytes = ONE instruction (4 bytes); for a MIPS branch: the branch and its delay slot (8 bytes).
//! Answer:   `<BlockTranslationResult in FIL> | <post>`  or  `err:…` / `panic@…` from `translate_block`,
//!           post = `next=<0xaddr|err:…|panic> ; <registers that differ from the request's state> ; <the memory windows>`
//!           (falcon's own executor, `Driver::step`, runs the lifted block from the state).
use fvh::lift::{arch, btr_str, bytes_hex, exec_btr, hex_bytes, lift_block, options, MachState};
use fvh::{run_main, Emit, Rng, Tier};

// ------------------------------------------------------------------------------------------------ answer

const MIPS_REGS: [&str; 32] = [
    "$zero", "$at", "$v0", "$v1", "$a0", "$a1", "$a2", "$a3", "$t0", "$t1", "$t2", "$t3", "$t4", "$t5", "$t6", "$t7", "$s0", "$s1",
    "$s2", "$s3", "$s4", "$s5", "$s6", "$s7", "$t8", "$t9", "$k0", "$k1", "$gp", "$sp", "$fp", "$ra",
];

fn watch(a: &str) -> Vec<String> {
    let mut v: Vec<String> = Vec::new();
    if a.starts_with("mips") {
        for r in MIPS_REGS.iter().skip(1) {
            v.push(r.to_string());
        }
        v.push("$hi".to_string());
        v.push("$lo".to_string());
    } else {
        for i in 0..32 {
            v.push(format!("r{}", i));
        }
        v.push("lr".to_string());
        v.push("ctr".to_string());
        v.push("carry".to_string());
        for i in 0..8 {
            for f in ["lt", "gt", "eq", "so"] {
                v.push(format!("cr{}-{}", i, f));
            }
        }
    }
    v
}

/// keep `next`, the registers whose value differs from the pre-state, and the memory windows
fn delta(post: &str, st: &MachState) -> String {
    let f: Vec<&str> = post.split(" ; ").collect();
    if f.len() != 3 {
        return post.to_string();
    }
    let mut regs = Vec::new();
    for kv in f[1].split(',').filter(|x| !x.is_empty()) {
        if let Some((k, v)) = kv.split_once('=') {
            let pre = st.regs.iter().find(|(n, _)| n == k).map(|(_, c)| fvh::canon::const_str(c)).unwrap_or_else(|| "-".to_string());
            if pre != v {
                regs.push(kv.to_string());
            }
        }
    }
    format!("{} ; {} ; {}", f[0], regs.join(","), f[2])
}

fn answer(line: &str) -> String {
    let (head, state) = match line.split_once(" | ") {
        Some(x) => x,
        None => return "bad-request".to_string(),
    };
    let f: Vec<&str> = head.split(' ').collect();
    if f.len() != 4 || f[0] != "ins" {
        return "bad-request".to_string();
    }
    let (a, bytes, addr, st) =
        match (arch(f[1]), hex_bytes(f[2]), u64::from_str_radix(f[3].trim_start_matches("0x"), 16).ok(), MachState::parse(state)) {
            (Some(a), Some(b), Some(ad), Some(st)) => (a, b, ad, st),
            _ => return "bad-request".to_string(),
        };
    match lift_block(a.as_ref(), &bytes, addr, &options(false)) {
        Ok(r) => {
            let post = exec_btr(&a, &r, &st, &watch(f[1]), 2000);
            format!("{} | {}", btr_str(&r), delta(&post, &st))
        }
        Err(e) => e,
    }
}

// ------------------------------------------------------------------------------------------------ MIPS encodings

#[derive(Clone, Copy, PartialEq, Debug)]
enum F {
    R3,      // op rd, rs, rt           (SPECIAL / SPECIAL2, sa = 0)
    ShI,     // op rd, rt, sa           (rs = 0)
    ShV,     // op rd, rt, rs
    RsRt,    // op rs, rt               (rd = sa = 0): mult div madd …
    RsRtC,   // teq rs, rt, code
    Rd,      // mfhi/mflo rd
    Rs,      // mthi/mtlo rs
    Clz,     // clz/clo rd, rs          (rt = rd)
    I,       // op rt, rs, imm16
    Lui,     // lui rt, imm16
    Mem,     // op rt, off(base)
    Code,    // syscall / break (20-bit code)
    Sync,
    Rdhwr,
    Br2,     // beq/bne rs, rt, off
    Br1,     // blez/bgtz rs, off       (opcode, rt = 0)
    BrRi,    // REGIMM rs, off          (rt selects)
    J,       // j/jal index
    Jr,
    Jalr,
}

struct T {
    name: &'static str,
    op: u32,
    sub: u32, // funct, or the rt selector of REGIMM
    f: F,
}

const fn t(name: &'static str, op: u32, sub: u32, f: F) -> T {
    T { name, op, sub, f }
}

const MIPS: &[T] = &[
    t("sll", 0, 0x00, F::ShI), t("srl", 0, 0x02, F::ShI), t("sra", 0, 0x03, F::ShI),
    t("sllv", 0, 0x04, F::ShV), t("srlv", 0, 0x06, F::ShV), t("srav", 0, 0x07, F::ShV),
    t("movz", 0, 0x0a, F::R3), t("movn", 0, 0x0b, F::R3),
    t("syscall", 0, 0x0c, F::Code), t("break", 0, 0x0d, F::Code), t("sync", 0, 0x0f, F::Sync),
    t("mfhi", 0, 0x10, F::Rd), t("mthi", 0, 0x11, F::Rs), t("mflo", 0, 0x12, F::Rd), t("mtlo", 0, 0x13, F::Rs),
    t("mult", 0, 0x18, F::RsRt), t("multu", 0, 0x19, F::RsRt), t("div", 0, 0x1a, F::RsRt), t("divu", 0, 0x1b, F::RsRt),
    t("add", 0, 0x20, F::R3), t("addu", 0, 0x21, F::R3), t("sub", 0, 0x22, F::R3), t("subu", 0, 0x23, F::R3),
    t("and", 0, 0x24, F::R3), t("or", 0, 0x25, F::R3), t("xor", 0, 0x26, F::R3), t("nor", 0, 0x27, F::R3),
    t("slt", 0, 0x2a, F::R3), t("sltu", 0, 0x2b, F::R3), t("teq", 0, 0x34, F::RsRtC),
    t("madd", 0x1c, 0x00, F::RsRt), t("maddu", 0x1c, 0x01, F::RsRt), t("mul", 0x1c, 0x02, F::R3),
    t("msub", 0x1c, 0x04, F::RsRt), t("msubu", 0x1c, 0x05, F::RsRt), t("clz", 0x1c, 0x20, F::Clz), t("clo", 0x1c, 0x21, F::Clz),
    t("rdhwr", 0x1f, 0x3b, F::Rdhwr),
    t("addi", 0x08, 0, F::I), t("addiu", 0x09, 0, F::I), t("slti", 0x0a, 0, F::I), t("sltiu", 0x0b, 0, F::I),
    t("andi", 0x0c, 0, F::I), t("ori", 0x0d, 0, F::I), t("xori", 0x0e, 0, F::I), t("lui", 0x0f, 0, F::Lui),
    t("lb", 0x20, 0, F::Mem), t("lh", 0x21, 0, F::Mem), t("lwl", 0x22, 0, F::Mem), t("lw", 0x23, 0, F::Mem),
    t("lbu", 0x24, 0, F::Mem), t("lhu", 0x25, 0, F::Mem), t("lwr", 0x26, 0, F::Mem),
    t("sb", 0x28, 0, F::Mem), t("sh", 0x29, 0, F::Mem), t("swl", 0x2a, 0, F::Mem), t("sw", 0x2b, 0, F::Mem), t("swr", 0x2e, 0, F::Mem),
    t("ll", 0x30, 0, F::Mem), t("pref", 0x33, 0, F::Mem), t("sc", 0x38, 0, F::Mem),
    // branches (always emitted with a delay slot)
    t("beq", 0x04, 0, F::Br2), t("bne", 0x05, 0, F::Br2), t("blez", 0x06, 0, F::Br1), t("bgtz", 0x07, 0, F::Br1),
    t("bltz", 0x01, 0x00, F::BrRi), t("bgez", 0x01, 0x01, F::BrRi), t("bltzal", 0x01, 0x10, F::BrRi), t("bgezal", 0x01, 0x11, F::BrRi),
    t("j", 0x02, 0, F::J), t("jal", 0x03, 0, F::J), t("jr", 0, 0x08, F::Jr), t("jalr", 0, 0x09, F::Jalr),
];

#[derive(Clone, Copy, Default)]
struct Fields {
    rs: u32,
    rt: u32,
    rd: u32,
    sa: u32,
    imm: u32, // 16 bits (or 26 for J, 20 for Code)
}

fn enc(t: &T, x: Fields) -> u32 {
    let (rs, rt, rd, sa, imm) = (x.rs & 31, x.rt & 31, x.rd & 31, x.sa & 31, x.imm);
    let base = t.op << 26;
    match t.f {
        F::R3 => base | rs << 21 | rt << 16 | rd << 11 | t.sub,
        F::ShI => base | rt << 16 | rd << 11 | sa << 6 | t.sub,
        F::ShV => base | rs << 21 | rt << 16 | rd << 11 | t.sub,
        F::RsRt => base | rs << 21 | rt << 16 | t.sub,
        F::RsRtC => base | rs << 21 | rt << 16 | (imm & 0x3ff) << 6 | t.sub,
        F::Rd => base | rd << 11 | t.sub,
        F::Rs => base | rs << 21 | t.sub,
        F::Clz => base | rs << 21 | rd << 16 | rd << 11 | t.sub,
        F::I | F::Mem | F::Br2 => base | rs << 21 | rt << 16 | (imm & 0xffff),
        F::Lui => base | rt << 16 | (imm & 0xffff),
        F::Code => base | (imm & 0xfffff) << 6 | t.sub,
        F::Sync => base | sa << 6 | t.sub,
        F::Rdhwr => base | rt << 16 | rd << 11 | t.sub,
        F::Br1 => base | rs << 21 | (imm & 0xffff),
        F::BrRi => base | rs << 21 | t.sub << 16 | (imm & 0xffff),
        F::J => base | (imm & 0x03ff_ffff),
        F::Jr => base | rs << 21 | t.sub,
        F::Jalr => base | rs << 21 | rd << 11 | t.sub,
    }
}

fn is_branch(t: &T) -> bool {
    matches!(t.f, F::Br2 | F::Br1 | F::BrRi | F::J | F::Jr | F::Jalr)
}

/// which register fields the format has
fn reg_fields(f: F) -> &'static [&'static str] {
    match f {
        F::R3 | F::ShV => &["rs", "rt", "rd"],
        F::ShI => &["rt", "rd"],
        F::RsRt | F::RsRtC | F::I | F::Mem | F::Br2 => &["rs", "rt"],
        F::Rd => &["rd"],
        F::Rs | F::Br1 | F::BrRi | F::Jr => &["rs"],
        F::Clz | F::Jalr => &["rs", "rd"],
        F::Lui => &["rt"],
        F::Rdhwr => &["rt", "rd"],
        F::Code | F::Sync | F::J => &[],
    }
}

fn has_imm(f: F) -> bool {
    matches!(f, F::I | F::Lui | F::Mem | F::Br2 | F::Br1 | F::BrRi | F::J | F::Code | F::RsRtC | F::ShI | F::Sync)
}

const IMMS: [u32; 9] = [0, 1, 2, 0x7fff, 0x8000, 0xffff, 0xfffc, 4, 0x1f];

fn rand_fields(rng: &mut Rng) -> Fields {
    let mut x = Fields { rs: rng.below(32) as u32, rt: rng.below(32) as u32, rd: rng.below(32) as u32, sa: rng.below(32) as u32, imm: rng.next() as u32 };
    // aliasing and $zero more often than chance
    if rng.chance(1, 6) {
        x.rt = x.rs;
    }
    if rng.chance(1, 6) {
        x.rd = x.rs;
    }
    if rng.chance(1, 8) {
        x.rd = x.rt;
    }
    if rng.chance(1, 10) {
        x.rs = 0;
    }
    if rng.chance(1, 10) {
        x.rt = 0;
    }
    if rng.chance(1, 12) {
        x.rd = 0;
    }
    if rng.chance(1, 4) {
        x.imm = *rng.pick(&IMMS);
    }
    x
}

// ------------------------------------------------------------------------------------------------ states

const EDGE32: [u32; 14] = [0, 1, 2, 0xffff_ffff, 0x8000_0000, 0x7fff_ffff, 0x8000_0001, 0xffff_fffe, 31, 32, 33, 0x1f, 0x20, 0x0001_0000];

fn val32(rng: &mut Rng) -> u32 {
    match rng.below(10) {
        0..=3 => *rng.pick(&EDGE32),
        4 => (rng.next() as u32) & 0x3f,
        5 => (rng.next() as u32) | 0x8000_0000,
        _ => rng.next() as u32,
    }
}

struct St {
    big: bool,
    regs: Vec<(String, u64, usize)>,
    mem: Vec<(u64, Vec<u8>)>,
}

impl St {
    fn set(&mut self, name: &str, v: u64) {
        for r in self.regs.iter_mut() {
            if r.0 == name {
                r.1 = v;
            }
        }
    }
    fn get(&self, name: &str) -> u64 {
        self.regs.iter().find(|r| r.0 == name).map(|r| r.1).unwrap_or(0)
    }
    fn render(&self) -> String {
        let r: Vec<String> = self.regs.iter().map(|(k, v, b)| format!("{}=0x{:x}:{}", k, v, b)).collect();
        let m: Vec<String> = self.mem.iter().map(|(a, b)| format!("0x{:x}:{}", a, bytes_hex(b))).collect();
        format!("{} ; {} ; {}", if self.big { "b" } else { "l" }, r.join(","), m.join(","))
    }
    /// a 40-byte window of random bytes around `ea` (aligned down, 16 bytes of slack before it)
    fn window(&mut self, rng: &mut Rng, ea: u64) {
        let start = (ea & !3).saturating_sub(16);
        if self.mem.iter().any(|(a, b)| start + 40 > *a && start < *a + b.len() as u64) {
            return; // overlaps an existing window: keep the first
        }
        let bytes: Vec<u8> = (0..40).map(|_| rng.next() as u8).collect();
        self.mem.push((start, bytes));
    }
}

fn mips_state(rng: &mut Rng, big: bool) -> St {
    let mut regs = Vec::new();
    for r in MIPS_REGS.iter().skip(1) {
        regs.push((r.to_string(), val32(rng) as u64, 32));
    }
    regs.push(("$hi".to_string(), val32(rng) as u64, 32));
    regs.push(("$lo".to_string(), val32(rng) as u64, 32));
    St { big, regs, mem: Vec::new() }
}

const BASES: [u32; 6] = [0x0001_0000, 0x0040_2000, 0x7fff_0ff0, 0x1000_0ffc, 0x8000_4000, 0xfffe_fff0];

/// make the effective address of a memory instruction land in a window.  `align`: required alignment (1, 2, 4);
/// `misalign`: pick a misaligned address on purpose
fn place_mem(rng: &mut Rng, st: &mut St, base: u32, off16: u32, align: u32, misalign: bool) {
    let off = (off16 as u16 as i16) as i32 as u32;
    let ea: u32 = if base == 0 {
        off
    } else {
        let mut ea = BASES[rng.below(BASES.len() as u64) as usize].wrapping_add((rng.below(8) as u32) * 4);
        let low = (rng.below(4)) as u32;
        if misalign {
            ea |= if align == 2 { 1 } else { 1 + (low % 3) };
        } else if align == 1 {
            ea |= low;
        } else if align == 2 {
            ea |= low & 2;
        }
        ea
    };
    if base != 0 {
        st.set(MIPS_REGS[base as usize], ea.wrapping_sub(off) as u64);
    }
    st.window(rng, ea as u64);
}

fn mem_align(name: &str) -> u32 {
    match name {
        "lb" | "lbu" | "sb" | "lwl" | "lwr" | "swl" | "swr" | "pref" => 1,
        "lh" | "lhu" | "sh" => 2,
        _ => 4,
    }
}

// ------------------------------------------------------------------------------------------------ generator

fn word_bytes(arch: &str, w: u32) -> [u8; 4] {
    if arch == "mipsel" {
        w.to_le_bytes()
    } else {
        w.to_be_bytes()
    }
}

const ADDRS: [u64; 6] = [0x1000, 0x0040_0100, 0x1000_0000, 0x7fff_fff0, 0x0fff_fff8, 0x8000_0000];

fn emit_mips(em: &mut Emit, rng: &mut Rng, arch: &str, t: &T, x: Fields, variant: &str, nstates: usize, over: &[(String, u64)]) {
    let big = arch == "mips";
    let w = enc(t, x);
    for k in 0..nstates {
        let mut st = mips_state(rng, big);
        for (k, v) in over {
            st.set(k, *v);
        }
        let mut var = variant.to_string();
        if t.f == F::Mem {
            let al = mem_align(t.name);
            let mis = al > 1 && (variant == "unaligned" || (variant == "state" && k == 0 && rng.chance(1, 8)));
            if mis {
                var = "unaligned".to_string();
            }
            place_mem(rng, &mut st, x.rs & 31, x.imm & 0xffff, al, mis);
        }
        if over.is_empty() && (t.name == "div" || t.name == "divu") {
            // INT_MIN / -1, divisor zero, small divisors
            match rng.below(6) {
                0 => {
                    st.set(MIPS_REGS[(x.rs & 31) as usize], 0x8000_0000);
                    st.set(MIPS_REGS[(x.rt & 31) as usize], 0xffff_ffff);
                }
                1 => st.set(MIPS_REGS[(x.rt & 31) as usize], 0),
                2 => st.set(MIPS_REGS[(x.rt & 31) as usize], 1 + rng.below(9)),
                _ => {}
            }
        }
        if over.is_empty() && t.name == "teq" && rng.chance(1, 2) {
            let v = st.get(MIPS_REGS[(x.rs & 31) as usize]);
            st.set(MIPS_REGS[(x.rt & 31) as usize], v);
        }
        let addr = if rng.chance(3, 4) { ADDRS[0] } else { *rng.pick(&ADDRS) };
        em.case(
            &format!("{}/{}/{}", arch, t.name, var),
            format!("ins {} {} 0x{:x} | {}", arch, bytes_hex(&word_bytes(arch, w)), addr, st.render()),
        );
    }
}

fn mips_by_name(n: &str) -> &'static T {
    MIPS.iter().find(|t| t.name == n).unwrap()
}

/// the delay-slot instruction kinds: (kind, word, memory placement)
fn slot_word(rng: &mut Rng, kind: &str, b: &T, x: Fields) -> (u32, Option<(u32, u32, u32)>) {
    let imm = (rng.next() as u32) & 0xffff;
    let other = 8 + rng.below(8) as u32; // $t0..$t7
    match kind {
        "nop" => (0, None),
        // addiu R, R, imm with R = the branch's own rs / rt: the decision must not see it
        "clobber-rs" => (enc(mips_by_name("addiu"), Fields { rs: x.rs, rt: x.rs, imm: imm | 1, ..Default::default() }), None),
        "clobber-rt" => (enc(mips_by_name("addiu"), Fields { rs: x.rt, rt: x.rt, imm: imm | 1, ..Default::default() }), None),
        // the slot reads / writes the link register
        "read-ra" => (enc(mips_by_name("addu"), Fields { rs: 31, rt: 31, rd: other, ..Default::default() }), None),
        "write-ra" => (enc(mips_by_name("addiu"), Fields { rs: 0, rt: 31, imm, ..Default::default() }), None),
        "read-rd" => (enc(mips_by_name("addu"), Fields { rs: x.rd, rt: x.rd, rd: other, ..Default::default() }), None),
        "alu" => {
            let t = *rng.pick(&["addu", "subu", "and", "or", "xor", "nor", "slt", "sltu"]);
            (enc(mips_by_name(t), Fields { rs: rng.below(32) as u32, rt: 1 + rng.below(31) as u32, rd: rng.below(32) as u32, ..Default::default() }), None)
        }
        "load" => {
            let base = 1 + rng.below(30) as u32; // never $zero, never $ra
            (enc(mips_by_name("lw"), Fields { rs: base, rt: rng.below(32) as u32, imm, ..Default::default() }), Some((base, imm, 4)))
        }
        "store" => {
            let base = 1 + rng.below(30) as u32;
            (enc(mips_by_name("sw"), Fields { rs: base, rt: rng.below(32) as u32, imm, ..Default::default() }), Some((base, imm, 4)))
        }
        "trap" => (enc(mips_by_name("add"), Fields { rs: other, rt: other, rd: other, ..Default::default() }), None),
        _ => {
            let _ = b;
            (0, None)
        }
    }
}

const SLOTS: [&str; 10] = ["nop", "clobber-rs", "clobber-rt", "read-ra", "write-ra", "read-rd", "alu", "load", "store", "trap"];

fn emit_mips_branch(em: &mut Emit, rng: &mut Rng, arch: &str, t: &T, x: Fields, kind: &str, nstates: usize) {
    let big = arch == "mips";
    let wb = enc(t, x);
    for _ in 0..nstates {
        let (ws, place) = slot_word(rng, kind, t, x);
        let mut st = mips_state(rng, big);
        // make conditions interesting: rs near zero / rs = rt
        if rng.chance(1, 2) {
            let v = *rng.pick(&[0u64, 1, 0xffff_ffff, 0x8000_0000, 0x7fff_ffff]);
            if x.rs & 31 != 0 {
                st.set(MIPS_REGS[(x.rs & 31) as usize], v);
            }
        }
        if t.f == F::Br2 && rng.chance(1, 2) && x.rt & 31 != 0 {
            let v = if x.rs & 31 == 0 { 0 } else { st.get(MIPS_REGS[(x.rs & 31) as usize]) };
            st.set(MIPS_REGS[(x.rt & 31) as usize], v);
        }
        if kind == "trap" {
            // make the slot's `add` overflow half of the time
            for r in 8..16 {
                st.set(MIPS_REGS[r], if rng.chance(1, 2) { 0x7fff_ffff } else { 5 });
            }
        }
        if matches!(t.f, F::Jr | F::Jalr) && x.rs & 31 != 0 {
            st.set(MIPS_REGS[(x.rs & 31) as usize], ((rng.next() as u32) & 0x7fff_fffc) as u64);
        }
        if let Some((base, off, al)) = place {
            place_mem(rng, &mut st, base, off, al, false);
        }
        let addr = if rng.chance(3, 4) { ADDRS[0] } else { *rng.pick(&ADDRS) };
        let mut bytes = word_bytes(arch, wb).to_vec();
        bytes.extend_from_slice(&word_bytes(arch, ws));
        em.case(
            &format!("{}/{}+{}/pair", arch, t.name, kind),
            format!("ins {} {} 0x{:x} | {}", arch, bytes_hex(&bytes), addr, st.render()),
        );
    }
}


/// boundary values every source register and implicit input is driven through
const B5: [u64; 5] = [0, 1, 0x7fff_ffff, 0x8000_0000, 0xffff_ffff];
/// (HI, LO) pairs for the instructions that read the accumulator
const HILO: [(u64, u64); 6] =
    [(0, 0), (0, 0xffff_ffff), (0xffff_ffff, 0xffff_ffff), (0x7fff_ffff, 0xffff_ffff), (0x8000_0000, 0), (0xffff_ffff, 0)];

/// register aliasing patterns over (rd, rs, rt): which fields are forced equal, and to which register
const ALIAS: [(&str, u32); 7] = [("none", 0), ("rd=rs", 4), ("rd=rt", 31), ("rs=rt", 4), ("all", 31), ("all", 0), ("rd=rs", 2)];

fn apply_alias(x: &mut Fields, pat: &str, r: u32) {
    match pat {
        "rd=rs" => {
            x.rd = r;
            x.rs = r;
            // immediate and memory formats: the destination is the rt field
            if x.rt == r {
                x.rt = (r + 1) & 31;
            }
        }
        "rd=rt" => {
            x.rd = r;
            x.rt = r;
            if x.rs == r {
                x.rs = (r + 1) & 31;
            }
        }
        "rs=rt" => {
            x.rs = r;
            x.rt = r;
            if x.rd == r {
                x.rd = (r + 1) & 31;
            }
        }
        "all" => {
            x.rd = r;
            x.rs = r;
            x.rt = r;
        }
        _ => {}
    }
}

/// destination = source aliasing x boundary values of the sources x every boundary value of the implicit inputs
/// (HI/LO for the accumulating and HI/LO-reading instructions)
fn gen_mips_alias_boundary(rng: &mut Rng, em: &mut Emit, arch: &str) {
    for t in MIPS.iter() {
        if is_branch(t) || reg_fields(t.f).is_empty() {
            continue;
        }
        let reads_hilo = matches!(t.name, "madd" | "maddu" | "msub" | "msubu" | "mfhi" | "mflo");
        let nsrc = match t.f {
            F::R3 | F::ShV | F::RsRt | F::RsRtC => 2,
            F::Rd | F::Lui | F::Rdhwr => 0,
            _ => 1,
        };
        for (pat, r) in ALIAS.iter() {
            let mut x = rand_fields(rng);
            // I-format: the destination is rt and the source rs: "rd=rs" means rt = rs there
            if matches!(t.f, F::I | F::Mem) {
                match *pat {
                    "none" => {}
                    "rs=rt" | "rd=rt" => continue,
                    _ => {
                        x.rs = *r;
                        x.rt = *r;
                    }
                }
            } else if t.f == F::ShI || t.f == F::Clz {
                match *pat {
                    "none" => {}
                    "rs=rt" | "rd=rt" => continue,
                    _ => {
                        x.rd = *r;
                        x.rt = *r;
                        x.rs = *r;
                    }
                }
            } else {
                apply_alias(&mut x, pat, *r);
            }
            let var = if *pat == "none" { "boundary".to_string() } else { format!("alias-{}", pat) };
            let hilos: &[(u64, u64)] = if reads_hilo { &HILO } else { &HILO[..1] };
            for (hi, lo) in hilos.iter() {
                for a in B5.iter() {
                    for b in B5.iter() {
                        if nsrc < 2 && *b != 0 {
                            continue;
                        }
                        if nsrc == 0 && *a != 0 {
                            continue;
                        }
                        let mut over: Vec<(String, u64)> = Vec::new();
                        // sources: rs (or the shifted register rt of the immediate shifts), then rt
                        let (s1, s2) = if t.f == F::ShI { (x.rt, x.rt) } else { (x.rs, x.rt) };
                        if nsrc >= 2 && s2 & 31 != 0 {
                            over.push((MIPS_REGS[(s2 & 31) as usize].to_string(), *b));
                        }
                        if nsrc >= 1 && s1 & 31 != 0 && t.f != F::Mem {
                            over.push((MIPS_REGS[(s1 & 31) as usize].to_string(), *a));
                        }
                        if t.f == F::Mem && x.rt & 31 != 0 {
                            over.push((MIPS_REGS[(x.rt & 31) as usize].to_string(), *a)); // the value stored / merged
                        }
                        if reads_hilo {
                            over.push(("$hi".to_string(), *hi));
                            over.push(("$lo".to_string(), *lo));
                        } else if rng.chance(1, 2) {
                            over.push(("$hi".to_string(), *rng.pick(&B5)));
                            over.push(("$lo".to_string(), *rng.pick(&B5)));
                        }
                        if over.is_empty() {
                            over.push(("$at".to_string(), *a));
                        }
                        emit_mips(em, rng, arch, t, x, &var, 1, &over);
                    }
                }
            }
        }
    }
}

fn gen_mips(tier: Tier, rng: &mut Rng, em: &mut Emit) {
    let thorough = tier == Tier::Thorough;
    let ns = if thorough { 6 } else { 2 };
    for arch in ["mips", "mipsel"] {
        gen_mips_alias_boundary(rng, em, arch);
        for t in MIPS.iter() {
            if is_branch(t) {
                for kind in SLOTS.iter() {
                    // every register field in turn, boundary offsets, random
                    for f in reg_fields(t.f) {
                        for v in 0..32u32 {
                            if !thorough && v % 4 != (rng.below(4) as u32) && v != 0 && v != 31 {
                                continue;
                            }
                            let mut x = rand_fields(rng);
                            match *f {
                                "rs" => x.rs = v,
                                "rt" => x.rt = v,
                                _ => x.rd = v,
                            }
                            emit_mips_branch(em, rng, arch, t, x, kind, 1);
                        }
                    }
                    for imm in IMMS.iter() {
                        let mut x = rand_fields(rng);
                        x.imm = if t.f == F::J { *imm | (rng.next() as u32 & 0x03ff_0000) } else { *imm };
                        emit_mips_branch(em, rng, arch, t, x, kind, 1);
                    }
                    for _ in 0..(if thorough { 40 } else { 6 }) {
                        let x = rand_fields(rng);
                        emit_mips_branch(em, rng, arch, t, x, kind, ns);
                    }
                }
                continue;
            }
            for f in reg_fields(t.f) {
                for v in 0..32u32 {
                    let mut x = rand_fields(rng);
                    match *f {
                        "rs" => x.rs = v,
                        "rt" => x.rt = v,
                        _ => x.rd = v,
                    }
                    emit_mips(em, rng, arch, t, x, &format!("{}-sweep", f), if thorough { 3 } else { 1 }, &[]);
                }
            }
            if has_imm(t.f) {
                for imm in IMMS.iter() {
                    let mut x = rand_fields(rng);
                    x.imm = *imm;
                    x.sa = *imm & 31;
                    emit_mips(em, rng, arch, t, x, "imm", ns, &[]);
                }
                if t.f == F::ShI {
                    for sa in 0..32 {
                        let mut x = rand_fields(rng);
                        x.sa = sa;
                        emit_mips(em, rng, arch, t, x, "imm", 1, &[]);
                    }
                }
            }
            if t.f == F::Mem && mem_align(t.name) > 1 {
                for _ in 0..(if thorough { 20 } else { 4 }) {
                    let x = rand_fields(rng);
                    emit_mips(em, rng, arch, t, x, "unaligned", 1, &[]);
                }
            }
            for _ in 0..(if thorough { 120 } else { 16 }) {
                let x = rand_fields(rng);
                emit_mips(em, rng, arch, t, x, "state", ns, &[]);
            }
        }
        // opcode-space sweep: every (opcode, funct / rt selector) with random remaining bits: finds encodings the
        // lifter accepts that the table above does not produce (reserved fields non-zero, aliases)
        for op in 0u32..64 {
            for sub in 0u32..64 {
                for _ in 0..(if thorough { 6 } else { 1 }) {
                    let mut w = (op << 26) | (rng.next() as u32 & 0x03ff_ffc0) | sub;
                    if op == 1 {
                        w = (op << 26) | (rng.next() as u32 & 0x03e0_ffff) | ((sub & 31) << 16);
                    }
                    let mut st = mips_state(rng, arch == "mips");
                    // memory operands: point the base into a window
                    if op >= 0x20 {
                        place_mem(rng, &mut st, (w >> 21) & 31, w & 0xffff, 4, false);
                    }
                    let mut bytes = word_bytes(arch, w).to_vec();
                    bytes.extend_from_slice(&[0, 0, 0, 0]); // a nop, in case it is a branch
                    let cut = if is_branch_word(w) { 8 } else { 4 };
                    bytes.truncate(cut);
                    em.case(
                        &format!("{}/{}/sweep", arch, mips_name(w)),
                        format!("ins {} {} 0x1000 | {}", arch, bytes_hex(&bytes), st.render()),
                    );
                }
            }
        }
    }
}

/// the table's mnemonic for a word (`+nop` for branches, which the sweep pairs with a nop), else `opXX-YY`
fn mips_name(w: u32) -> String {
    let op = w >> 26;
    let sub = if op == 0 || op == 0x1c || op == 0x1f { w & 0x3f } else if op == 1 { (w >> 16) & 31 } else { 0 };
    match MIPS.iter().find(|t| t.op == op && t.sub == sub) {
        Some(t) if is_branch(t) => format!("{}+nop", t.name),
        Some(t) => t.name.to_string(),
        None => format!("op{:02x}-{:02x}", op, sub),
    }
}

/// branch-shaped words by opcode (for the opcode-space sweep only: decides whether a delay slot is appended)
fn is_branch_word(w: u32) -> bool {
    let op = w >> 26;
    match op {
        0 => matches!(w & 0x3f, 8 | 9),
        1 => true,
        2..=7 => true,
        0x14..=0x17 => true,
        _ => false,
    }
}


// ------------------------------------------------------------------------------------------------ PowerPC

fn ppc_state(rng: &mut Rng) -> St {
    let mut regs = Vec::new();
    for i in 0..32 {
        regs.push((format!("r{}", i), val32(rng) as u64, 32));
    }
    regs.push(("lr".to_string(), (val32(rng) & !3) as u64, 32));
    regs.push(("ctr".to_string(), if rng.chance(1, 3) { rng.below(3) } else { val32(rng) as u64 }, 32));
    regs.push(("carry".to_string(), rng.below(2), 1));
    regs.push(("so".to_string(), rng.below(2), 1));
    for i in 0..8 {
        for f in ["lt", "gt", "eq", "so"] {
            regs.push((format!("cr{}-{}", i, f), rng.below(2), 1));
        }
    }
    St { big: true, regs, mem: Vec::new() }
}

/// (mnemonic, word) pairs for one random choice of fields
fn ppc_words(rng: &mut Rng, sweep: Option<(&str, u32)>, fixed: Option<(u32, u32, u32, u32)>) -> Vec<(&'static str, u32, Option<(u32, u32, u32)>)> {
    let mut f = rand_fields(rng);
    let mut rb = rng.below(32) as u32;
    if let Some((name, v)) = sweep {
        match name {
            "rt" => f.rt = v,
            "ra" => f.rs = v,
            _ => rb = v,
        }
    }
    let mut rc = if rng.chance(1, 4) { 1 } else { 0 };
    if let Some((t, a, b, c)) = fixed {
        f.rt = t;
        f.rs = a;
        rb = b;
        rc = c;
    }
    let (rt, ra, imm) = (f.rt & 31, f.rs & 31, f.imm & 0xffff);
    let lk = rng.below(2) as u32;
    let d = |op: u32| op << 26 | rt << 21 | ra << 16 | imm;
    let x = |xo: u32, b: u32, rc: u32| 31u32 << 26 | rt << 21 | ra << 16 | b << 11 | xo << 1 | rc;
    let sh = f.sa & 31;
    let (mb, me) = ((rng.below(32)) as u32, (rng.below(32)) as u32);
    let bf = rng.below(8) as u32;
    let bo = rng.below(32) as u32;
    let bi = rng.below(32) as u32;
    let mem = |size: u32| Some((ra, imm, size));
    vec![
        ("addi", d(14), None),
        ("addis", d(15), None),
        ("ori", d(24), None),
        ("nop", 24 << 26, None),
        ("cmpwi", 11 << 26 | bf << 23 | ra << 16 | imm, None),
        ("cmplwi", 10 << 26 | bf << 23 | ra << 16 | imm, None),
        ("lbz", d(34), mem(1)),
        ("lwz", d(32), mem(4)),
        ("lwzu", d(33), mem(4)),
        ("stw", d(36), mem(4)),
        ("stwu", d(37), mem(4)),
        ("stmw", d(47), mem(128)),
        ("add", x(266, rb, rc), None),
        ("subf", x(40, rb, rc), None),
        ("addze", x(202, 0, rc), None),
        ("mr", x(444, rt, 0), None),
        ("or", x(444, rb, rc), None),
        ("srawi", x(824, sh, rc), None),
        ("mflr", 31 << 26 | rt << 21 | 8 << 16 | 339 << 1, None),
        ("mfctr", 31 << 26 | rt << 21 | 9 << 16 | 339 << 1, None),
        ("mtlr", 31 << 26 | rt << 21 | 8 << 16 | 467 << 1, None),
        ("mtctr", 31 << 26 | rt << 21 | 9 << 16 | 467 << 1, None),
        ("rlwinm", 21 << 26 | rt << 21 | ra << 16 | sh << 11 | mb << 6 | me << 1 | rc, None),
        ("slwi", 21 << 26 | rt << 21 | ra << 16 | sh << 11 | (31 - sh) << 1, None),
        ("b", 18 << 26 | (f.imm & 0x00ff_fffc), None),
        ("bl", 18 << 26 | (f.imm & 0x00ff_fffc) | 1, None),
        ("bc", 16 << 26 | bo << 21 | bi << 16 | (imm & 0xfffc) | lk, None),
        ("beq", 16 << 26 | 12 << 21 | (4 * bf + 2) << 16 | (imm & 0xfffc), None),
        ("bclr", 19 << 26 | bo << 21 | bi << 16 | 16 << 1 | lk, None),
        ("blr", 19 << 26 | 20 << 21 | 16 << 1, None),
        ("bctr", 19 << 26 | 20 << 21 | 528 << 1, None),
        ("bcctr", 19 << 26 | (bo | 4) << 21 | bi << 16 | 528 << 1 | lk, None),
    ]
}

/// mnemonic class of a PPC word by (opcode, extended opcode), else `opNN-XO`
fn ppc_name(w: u32) -> String {
    let op = w >> 26;
    let xo = (w >> 1) & 0x3ff;
    let n = match op {
        14 => "addi", 15 => "addis", 24 => "ori", 11 => "cmpwi", 10 => "cmplwi", 34 => "lbz", 32 => "lwz", 33 => "lwzu",
        36 => "stw", 37 => "stwu", 47 => "stmw", 21 => "rlwinm", 18 => if w & 1 == 1 { "bl" } else { "b" }, 16 => "bc",
        19 => match xo { 16 => "bclr", 528 => "bcctr", _ => "" },
        31 => match xo & 0x1ff {
            266 => "add", 40 => "subf", 202 => "addze",
            _ => match xo { 444 => "or", 824 => "srawi", 339 => "mfspr", 467 => "mtspr", _ => "" },
        },
        _ => "",
    };
    if n.is_empty() { format!("op{:02}-{}", op, if op == 31 || op == 19 { xo } else { 0 }) } else { n.to_string() }
}

fn gen_ppc(tier: Tier, rng: &mut Rng, em: &mut Emit) {
    let thorough = tier == Tier::Thorough;
    let emit_over = |em: &mut Emit, rng: &mut Rng, name: &str, w: u32, place: Option<(u32, u32, u32)>, var: &str, over: &[(String, u64)]| {
        let mut st = ppc_state(rng);
        for (k, v) in over {
            st.set(k, *v);
        }
        if let Some((ra, off16, size)) = place {
            let off = (off16 as u16 as i16) as i32 as u32;
            let ea: u32 = if ra == 0 && name != "lwzu" && name != "stwu" {
                off
            } else {
                BASES[rng.below(BASES.len() as u64) as usize].wrapping_add((rng.below(8) as u32) * 4 + if size == 1 { rng.below(4) as u32 } else { 0 })
            };
            if !(ra == 0 && name != "lwzu" && name != "stwu") {
                st.set(&format!("r{}", ra), ea.wrapping_sub(off) as u64);
            }
            let start = (ea & !3) as u64;
            let start = start.saturating_sub(16);
            let len = 40 + if size > 4 { 128 } else { 0 };
            st.mem.push((start, (0..len).map(|_| rng.next() as u8).collect()));
        }
        let addr = if rng.chance(3, 4) { ADDRS[0] } else { *rng.pick(&ADDRS) };
        em.case(&format!("ppc/{}/{}", name, var), format!("ins ppc {} 0x{:x} | {}", bytes_hex(&w.to_be_bytes()), addr, st.render()));
    };
    let emit = |em: &mut Emit, rng: &mut Rng, name: &str, w: u32, place: Option<(u32, u32, u32)>, var: &str| {
        emit_over(em, rng, name, w, place, var, &[])
    };
    // destination = source aliasing (rt=ra, rt=rb, ra=rb, all equal; several register numbers) x boundary values of the
    // source registers x EVERY value of the implicit inputs: CA, the CR bit a branch tests, CTR, LR
    let patterns: [(&str, u32, u32, u32); 10] = [
        ("boundary", 3, 4, 5), ("alias-rt=ra", 4, 4, 5), ("alias-rt=ra", 31, 31, 7), ("alias-rt=rb", 4, 6, 4), ("alias-rt=rb", 31, 3, 31),
        ("alias-ra=rb", 5, 4, 4), ("alias-ra=rb", 9, 31, 31), ("alias-all", 4, 4, 4), ("alias-all", 31, 31, 31), ("alias-all", 0, 0, 0),
    ];
    for (var, rt, ra, rb) in patterns.iter() {
        for rc in 0..2u32 {
            for (name, w, place) in ppc_words(rng, None, Some((*rt, *ra, *rb, rc))) {
                let is_branch = matches!(name, "b" | "bl" | "bc" | "beq" | "bclr" | "blr" | "bctr" | "bcctr");
                let has_rc = matches!(name, "add" | "subf" | "addze" | "or" | "srawi" | "rlwinm");
                if rc == 1 && !has_rc {
                    continue;
                }
                if is_branch {
                    if *var != "boundary" {
                        continue;
                    }
                    // the tested CR bit (every bit of its field), CTR around zero, LR
                    let bi = (w >> 16) & 31;
                    for crv in 0..2u64 {
                        for ctr in [0u64, 1, 2, 0x8000_0000, 0xffff_ffff] {
                            for lr in [0u64, 0x7fff_fffc, 0xffff_fffc] {
                                let f = ["lt", "gt", "eq", "so"][(bi & 3) as usize];
                                let over = vec![(format!("cr{}-{}", bi >> 2, f), crv), ("ctr".to_string(), ctr), ("lr".to_string(), lr)];
                                emit_over(em, rng, name, w, place, "boundary", &over);
                            }
                        }
                    }
                    continue;
                }
                let two_src = matches!(name, "add" | "subf" | "or");
                for ca in 0..2u64 {
                    for a in B5.iter() {
                        for b in B5.iter() {
                            if !two_src && *b != 0 {
                                continue;
                            }
                            let mut over = vec![("carry".to_string(), ca), ("so".to_string(), ca ^ 1)];
                            // X-forms whose destination is the ra field read the rt field (rS)
                            let src_in_rt = matches!(name, "or" | "mr" | "srawi" | "rlwinm" | "slwi" | "mtlr" | "mtctr" | "stw" | "stwu" | "stmw");
                            if two_src {
                                over.push((format!("r{}", rb), *b));
                            }
                            over.push((format!("r{}", if src_in_rt { *rt } else { *ra }), *a));
                            if matches!(name, "mflr" | "mfctr") {
                                over.push(("lr".to_string(), *a));
                                over.push(("ctr".to_string(), *a));
                            }
                            emit_over(em, rng, name, w, place, var, &over);
                        }
                    }
                }
            }
        }
    }
    // register-field sweeps
    for field in ["rt", "ra", "rb"] {
        for v in 0..32u32 {
            for (name, w, place) in ppc_words(rng, Some((field, v)), None) {
                emit(em, rng, name, w, place, &format!("{}-sweep", field));
            }
        }
    }
    for imm in IMMS.iter() {
        for _ in 0..2 {
            let mut ws = ppc_words(rng, None, None);
            for (name, w, place) in ws.iter_mut() {
                // force the 16-bit immediate of the D-forms
                let op = *w >> 26;
                if matches!(op, 14 | 15 | 24 | 10 | 11 | 32 | 33 | 34 | 36 | 37 | 47) && *name != "nop" {
                    *w = (*w & 0xffff_0000) | *imm;
                    if let Some(p) = place {
                        p.1 = *imm;
                    }
                }
                emit(em, rng, name, *w, *place, "imm");
            }
        }
    }
    for _ in 0..(if thorough { 400 } else { 40 }) {
        for (name, w, place) in ppc_words(rng, None, None) {
            emit(em, rng, name, w, place, "state");
        }
    }
    // opcode-space sweep
    for op in 0u32..64 {
        for sub in 0u32..64 {
            for _ in 0..(if thorough { 4 } else { 1 }) {
                let mut w = (op << 26) | (rng.next() as u32 & 0x03ff_ffff);
                if op == 31 || op == 19 {
                    w = (w & !0x7fe) | ((rng.next() as u32 & 0x3c0) | sub) << 1;
                }
                let mut st = ppc_state(rng);
                if op >= 32 {
                    let ra = (w >> 16) & 31;
                    let off = ((w & 0xffff) as u16 as i16) as i32 as u32;
                    let ea = if ra == 0 { off } else { 0x0001_0000 + (rng.below(8) as u32) * 4 };
                    if ra != 0 {
                        st.set(&format!("r{}", ra), ea.wrapping_sub(off) as u64);
                    }
                    st.mem.push((((ea & !3) as u64).saturating_sub(16), (0..168).map(|_| rng.next() as u8).collect()));
                }
                em.case(&format!("ppc/{}/sweep", ppc_name(w)), format!("ins ppc {} 0x1000 | {}", bytes_hex(&w.to_be_bytes()), st.render()));
            }
        }
    }
}

fn generate(tier: Tier, rng: &mut Rng, em: &mut Emit) {
    gen_mips(tier, rng, em);
    gen_ppc(tier, rng, em);
}

fn main() {
    run_main(&generate, &answer);
}
