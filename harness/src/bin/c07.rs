//! C07 — the concrete executor (`falcon::executor::Driver::step` over `memory::paged::Memory`).
//! One request = one run: program, initial state, start location, step count, watch windows.
//! The line protocol is documented in lean/Drivers/C07.lean.
use falcon::architecture::{Endian, Mips};
use falcon::executor::{Driver, Memory, State};
use falcon::il::{
    self, ControlFlowGraph, Expression as E, Function, FunctionLocation, Instruction, Operation, Program,
    ProgramLocation, RefProgramLocation,
};
use falcon::memory::{backing, MemoryPermissions};
use falcon::{Error, RC};
use fvh::canon::{catch, const_str, err_str, parse_const};
use fvh::fil::{program_str, read_program};
use fvh::genil::{gen_expr, gen_function, rand_const, GenCfg};
use fvh::sx::{parse_all, Sx};
use fvh::{run_main, Emit, Rng, Tier};
use std::collections::BTreeSet;

// ---------------------------------------------------------------- falcon's answer

fn err7(e: &Error) -> String {
    match e {
        // `.ok_or("Failed to get edge condition")?` of the instruction arm: the same situation as
        // `ExecutorNoEdgeCondition` of the empty-block arm
        Error::Custom(s) if s == "Failed to get edge condition" => "err:noedge".to_string(),
        Error::ExecutorLiftFail(_, _) => "lift".to_string(),
        // lifting at unmapped bytes "succeeds" with an empty function, which then has no location
        Error::Custom(s) if s == "Failed to get location for newly lifted function" => "lift".to_string(),
        Error::Chain(a, _) => err7(a),
        _ => err_str(e).to_string(),
    }
}

fn hex_bytes(s: &str) -> Option<Vec<u8>> {
    let b = s.as_bytes();
    if b.len() % 2 != 0 {
        return None;
    }
    let mut out = Vec::with_capacity(b.len() / 2);
    for p in b.chunks(2) {
        let hi = (p[0] as char).to_digit(16)?;
        let lo = (p[1] as char).to_digit(16)?;
        out.push((hi * 16 + lo) as u8);
    }
    Some(out)
}

fn byte_str(m: &Memory, a: u64) -> String {
    match m.load(a, 8) {
        Ok(Some(c)) => format!("{:02x}", c.value_u64().unwrap_or(0x100) & 0x1ff),
        Ok(None) => "??".to_string(),
        Err(_) => "!!".to_string(),
    }
}

fn window_str(m: &Memory, start: u64, len: u64) -> String {
    let mut s = format!("m0x{:x}=", start);
    for k in 0..len {
        if let Some(a) = start.checked_add(k) {
            s.push_str(&byte_str(m, a));
        }
    }
    s
}

fn collect_names(x: &Sx, out: &mut BTreeSet<String>) {
    if let Sx::List(v) = x {
        if v.len() >= 3 && v[0].atom() == Some("s") {
            if let Some(n) = v[1].atom() {
                out.insert(n.to_string());
            }
        }
        for y in v {
            collect_names(y, out);
        }
    }
}

fn read_pos(x: &Sx) -> Option<FunctionLocation> {
    let l = x.list()?;
    match (l.first()?.atom()?, &l[1..]) {
        ("i", [b, i]) => Some(FunctionLocation::Instruction(b.usize()?, i.usize()?)),
        ("e", [h, t]) => Some(FunctionLocation::Edge(h.usize()?, t.usize()?)),
        ("b", [b]) => Some(FunctionLocation::EmptyBlock(b.usize()?)),
        _ => None,
    }
}

fn pos_str(l: &FunctionLocation) -> String {
    match l {
        FunctionLocation::Instruction(b, i) => format!("i{}.{}", b, i),
        FunctionLocation::Edge(h, t) => format!("e{}-{}", h, t),
        FunctionLocation::EmptyBlock(b) => format!("b{}", b),
    }
}

/// `ProgramLocation` keeps its function index private: it is recovered by applying the location
fn loc_str(l: &ProgramLocation, p: &Program) -> String {
    let f = match l.apply(p) {
        Ok(r) => r.function().index().map(|i| i.to_string()).unwrap_or_else(|| "-".to_string()),
        Err(_) => "!".to_string(),
    };
    format!("{}:{}", f, pos_str(l.function_location()))
}

struct Request {
    program: Program,
    state: State,
    loc: ProgramLocation,
    steps: u64,
    watch: Vec<(u64, u64)>,
    names: Vec<String>,
}

fn parse_request(req: &str) -> Option<Request> {
    let xs = parse_all(req)?;
    if xs.len() != 5 {
        return None;
    }
    let program = read_program(&xs[0])?;
    let st = xs[1].list()?;
    if st.len() != 5 || st[0].atom()? != "state" {
        return None;
    }
    let endian = match st[1].atom()? {
        "LE" => Endian::Little,
        "BE" => Endian::Big,
        _ => return None,
    };
    let mut memory = match &st[2] {
        Sx::Atom(a) if a == "-" => Memory::new(endian.clone()),
        Sx::List(v) if v.first().and_then(|x| x.atom()) == Some("back") => {
            let mut b = backing::Memory::new(endian.clone());
            for r in &v[1..] {
                let r = r.list()?;
                let data = if r.len() > 1 { hex_bytes(r[1].atom()?)? } else { Vec::new() };
                if !data.is_empty() {
                    b.set_memory(r[0].u64()?, data, MemoryPermissions::ALL);
                }
            }
            Memory::new_with_backing(endian.clone(), RC::new(b))
        }
        _ => return None,
    };
    let init = st[3].list()?;
    if init.first()?.atom()? != "init" {
        return None;
    }
    for s in &init[1..] {
        let s = s.list()?;
        memory.store(s[0].u64()?, parse_const(s[1].atom()?)?).ok()?;
    }
    let mut state = State::new(memory);
    let scs = st[4].list()?;
    if scs.first()?.atom()? != "scalars" {
        return None;
    }
    let mut names = BTreeSet::new();
    for s in &scs[1..] {
        let s = s.list()?;
        let n = s[0].atom()?;
        state.set_scalar(n, parse_const(s[1].atom()?)?);
        names.insert(n.to_string());
    }
    collect_names(&xs[0], &mut names);
    let at = xs[2].list()?;
    if at.len() != 3 || at[0].atom()? != "at" {
        return None;
    }
    let fi = match at[1].atom()? {
        "-" => None,
        _ => Some(at[1].usize()?),
    };
    let loc = ProgramLocation::new(fi, read_pos(&at[2])?);
    let sl = xs[3].list()?;
    if sl.len() != 2 || sl[0].atom()? != "steps" {
        return None;
    }
    let steps = sl[1].u64()?;
    let wl = xs[4].list()?;
    if wl.first()?.atom()? != "watch" {
        return None;
    }
    let mut watch = Vec::new();
    for w in &wl[1..] {
        let w = w.list()?;
        watch.push((w[0].u64()?, w[1].u64()?));
    }
    Some(Request { program, state, loc, steps, watch, names: names.into_iter().collect() })
}

fn answer(req: &str) -> String {
    let r = match catch(|| parse_request(req)) {
        Some(Some(r)) => r,
        _ => return "bad-request".to_string(),
    };
    let mut out: Vec<String> = Vec::new();
    let mut driver = Driver::new(RC::new(r.program), r.loc, r.state, RC::new(Mips::new()));
    for _ in 0..r.steps {
        let pre = driver.clone();
        let op: Option<Operation> = pre
            .location()
            .apply(pre.program())
            .ok()
            .and_then(|l| l.instruction().map(|i| i.operation().clone()));
        // accesses touching the last byte of the 64-bit address space are outside the compared domain
        // (DESIGN §3: addresses carry the side condition a + len < 2^64; see the final report of C07)
        let edge = match &op {
            Some(Operation::Store { index, src }) => {
                match (pre.state().symbolize_and_eval(src), pre.state().symbolize_and_eval(index)) {
                    (Ok(v), Ok(i)) => i.value_u64().map(|a| a.checked_add((v.bits() / 8) as u64).is_none()).unwrap_or(false),
                    _ => false,
                }
            }
            Some(Operation::Load { dst, index }) => match pre.state().symbolize_and_eval(index) {
                Ok(i) => i.value_u64().map(|a| a.checked_add((dst.bits() / 8) as u64).is_none()).unwrap_or(false),
                _ => false,
            },
            _ => false,
        };
        if edge {
            out.push("edge64".to_string());
            return out.join(" ; ");
        }
        match catch(move || driver.step()) {
            None => {
                out.push("panic".to_string());
                return out.join(" ; ");
            }
            Some(Err(e)) => {
                out.push(err7(&e));
                return out.join(" ; ");
            }
            Some(Ok(d2)) => {
                if d2.program().functions().len() != pre.program().functions().len() {
                    out.push("lift".to_string());
                    return out.join(" ; ");
                }
                let mut delta: Vec<String> = Vec::new();
                for n in &r.names {
                    let new = d2.state().get_scalar(n);
                    if let Some(v) = new {
                        if pre.state().get_scalar(n) != Some(v) {
                            delta.push(format!("{}={}", n, const_str(v)));
                        }
                    }
                }
                let delta = if delta.is_empty() { "-".to_string() } else { delta.join(",") };
                let win = match op {
                    Some(Operation::Store { ref index, ref src }) => {
                        match (pre.state().symbolize_and_eval(index), pre.state().symbolize_and_eval(src)) {
                            (Ok(i), Ok(v)) => match i.value_u64() {
                                Some(a) => {
                                    let start = a.saturating_sub(2);
                                    window_str(d2.state().memory(), start, a - start + (v.bits() / 8) as u64 + 2)
                                }
                                None => "-".to_string(),
                            },
                            _ => "-".to_string(),
                        }
                    }
                    Some(Operation::Load { ref index, .. }) => match pre.state().symbolize_and_eval(index) {
                        Ok(i) => format!("l0x{:x}", i.value()),
                        _ => "-".to_string(),
                    },
                    _ => "-".to_string(),
                };
                out.push(format!("{} {} {}", loc_str(d2.location(), d2.program()), delta, win));
                driver = d2;
            }
        }
    }
    let m = driver.state().memory();
    if r.watch.is_empty() {
        out.push("end -".to_string());
    } else {
        let ws: Vec<String> = r.watch.iter().map(|(a, n)| window_str(m, *a, *n)).collect();
        out.push(format!("end {}", ws.join(",")));
    }
    out.join(" ; ")
}

// ---------------------------------------------------------------- generator

const REGIONS: [(u64, u64); 3] = [(0x2000, 32), (0x23f8, 16), (0x3000, 8)];

fn gen_cfg_of(rng: &mut Rng, wf: bool) -> GenCfg {
    let mut g = GenCfg::default();
    g.names = vec![
        ("a".into(), 32),
        ("b".into(), 32),
        ("c".into(), 32),
        ("d".into(), 32),
        ("f".into(), 1),
        ("g".into(), 1),
        ("w".into(), 64),
        ("p".into(), 64),
        ("h".into(), 8),
        ("x".into(), 16),
        ("q".into(), 128),
        ("t".into(), 24),
    ];
    g.addr_bits = if rng.chance(2, 3) { 32 } else { 64 };
    g.max_blocks = 8;
    g.max_instrs = 6;
    g.branch = rng.chance(1, 3);
    g.intrinsic = rng.chance(1, 4);
    g.allow_div = rng.chance(1, 3);
    g.partition_guards = wf;
    g
}

/// an address expression that mostly lands in or next to a mapped region
fn addr_expr(rng: &mut Rng, g: &GenCfg) -> E {
    let bits = g.addr_bits;
    let base = if rng.chance(1, 2) {
        let ns = g.names_of(bits);
        E::Scalar(rng.pick(&ns).clone())
    } else {
        let (a, n) = *rng.pick(&REGIONS);
        il::expr_const(a + rng.below(n), bits)
    };
    match rng.below(4) {
        0 => E::add(base, il::expr_const(rng.below(12), bits)).unwrap(),
        1 => E::sub(base, il::expr_const(rng.below(6), bits)).unwrap(),
        _ => base,
    }
}

fn mutate_ops(rng: &mut Rng, g: &GenCfg, cfg: &mut ControlFlowGraph, addrs: &[u64], wf: bool) {
    for b in cfg.blocks_mut() {
        for ins in b.instructions_mut() {
            let new = match ins.operation() {
                Operation::Load { dst, .. } if rng.chance(3, 4) => {
                    Some(Operation::load(dst.clone(), addr_expr(rng, g)))
                }
                Operation::Store { src, .. } if rng.chance(3, 4) => {
                    Some(Operation::store(addr_expr(rng, g), src.clone()))
                }
                Operation::Branch { .. } if !addrs.is_empty() && rng.chance(4, 5) => {
                    // a present address, the first function's own address, or one next to a present one
                    let a = if rng.chance(1, 5) { addrs[0] } else { *rng.pick(addrs) };
                    let t = if rng.chance(1, 10) { a + 1 } else { a };
                    Some(Operation::branch(il::expr_const(t, g.addr_bits)))
                }
                Operation::Assign { dst, .. } if !wf && rng.chance(1, 25) => {
                    // ill-sorted source (raw variant, bypassing the constructor)
                    let l = gen_expr(rng, g, dst.bits(), 1);
                    let r = gen_expr(rng, g, if dst.bits() == 8 { 32 } else { 8 }, 1);
                    Some(Operation::assign(dst.clone(), E::Add(Box::new(l), Box::new(r))))
                }
                Operation::Load { .. } if !wf && rng.chance(1, 10) => {
                    Some(Operation::load(il::scalar("f", 1), addr_expr(rng, g)))
                }
                Operation::Load { dst, .. } if !wf && rng.chance(1, 10) => {
                    // a 128-bit address, sometimes beyond 64 bits (TooManyAddressBits)
                    let big = E::Constant(il::Constant::new_big(num_bigint::BigUint::from(1u8) << 64usize, 128));
                    let q = E::Scalar(il::scalar("q", 128));
                    let idx = if rng.chance(1, 2) { E::add(q, big).unwrap() } else { q };
                    Some(Operation::load(dst.clone(), idx))
                }
                Operation::Store { .. } if !wf && rng.chance(1, 10) => {
                    Some(Operation::store(addr_expr(rng, g), gen_expr(rng, g, 1, 1)))
                }
                _ => None,
            };
            if let Some(op) = new {
                *ins.operation_mut() = op;
            }
        }
        if !wf && rng.chance(1, 30) {
            // duplicate instruction index
            let n = b.instructions().len();
            if n > 0 {
                let idx = b.instructions()[rng.below(n as u64) as usize].index();
                b.instructions_mut().push(Instruction::new(idx, Operation::nop()));
            }
        }
    }
}

fn gen_program7(rng: &mut Rng, g: &GenCfg, wf: bool) -> Program {
    let n = rng.range(1, 3);
    let mut fs: Vec<(u64, ControlFlowGraph)> = Vec::new();
    for i in 0..n {
        let f = gen_function(rng, g);
        let mut cfg = f.control_flow_graph().clone();
        let mut addr = f.address();
        if rng.chance(9, 10) {
            // mostly disjoint ranges well above 0; sometimes the first function starts at address 0 (hand-built IL,
            // firmware images), where "no address" and "address 0" must stay different things
            let base = if i == 0 && rng.chance(1, 4) { 0 } else { 0x1000 * (i + 1) * 4 + 0x10000 };
            for b in cfg.blocks_mut() {
                for ins in b.instructions_mut() {
                    let a = ins.address().map(|a| a - 0x1000 + base);
                    ins.set_address(a);
                }
            }
            addr = base;
        }
        fs.push((addr, cfg));
    }
    // instructions built by hand (or inserted by an editing pass) carry no address: strip some
    if rng.chance(1, 2) {
        for (_, cfg) in fs.iter_mut() {
            for b in cfg.blocks_mut() {
                for ins in b.instructions_mut() {
                    if rng.chance(1, 3) {
                        ins.set_address(None);
                    }
                }
            }
        }
    }
    let mut addrs: Vec<u64> = Vec::new();
    for (a, _) in &fs {
        addrs.push(*a); // addrs[0] = the first function's address
    }
    for (_, cfg) in &fs {
        for b in cfg.blocks() {
            for ins in b.instructions() {
                if let Some(a) = ins.address() {
                    addrs.push(a);
                }
            }
        }
    }
    let mut p = Program::new();
    for (addr, mut cfg) in fs {
        mutate_ops(rng, g, &mut cfg, &addrs, wf);
        p.add_function(Function::new(addr, cfg));
    }
    p
}

fn rand_bytes(rng: &mut Rng, n: u64) -> String {
    (0..n).map(|_| format!("{:02x}", rng.below(256))).collect()
}

fn gen_state(rng: &mut Rng, g: &GenCfg, wf: bool) -> (String, String, String) {
    let endian = if rng.chance(1, 2) { "LE" } else { "BE" };
    let backed = rng.chance(1, 2);
    let back = if backed {
        let mut parts = Vec::new();
        for (a, n) in REGIONS.iter() {
            if rng.chance(5, 6) {
                // sometimes only a part of the region
                let (s, l) = if rng.chance(1, 4) { (a + 3, n - 6) } else { (*a, *n) };
                parts.push(format!("({:#x} {})", s, rand_bytes(rng, l)));
            }
        }
        format!("(back {})", parts.join(" ")).replace("(back )", "(back)")
    } else {
        "-".to_string()
    };
    let mut inits = Vec::new();
    let k = if backed { rng.below(4) } else { rng.range(2, 8) };
    for _ in 0..k {
        let (a, n) = *rng.pick(&REGIONS);
        let bits = *rng.pick(&[8usize, 16, 32, 64, 128]);
        let off = rng.below(n);
        inits.push(format!("({:#x} {})", a + off, const_str(&rand_const(rng, bits))));
    }
    let mut scs = Vec::new();
    let all_defined = rng.chance(1, 2);
    for (n, b) in &g.names {
        if !all_defined && rng.chance(1, 8) {
            continue; // undefined
        }
        let bits = if !wf && rng.chance(1, 20) { if *b == 32 { 8 } else { 32 } } else { *b };
        let c = if bits >= 32 && rng.chance(2, 3) {
            let (a, len) = *rng.pick(&REGIONS);
            il::const_(a + rng.below(len), bits)
        } else {
            rand_const(rng, bits)
        };
        scs.push(format!("({} {})", n, const_str(&c)));
    }
    let state = format!(
        "(state {} {} (init{}{}) (scalars{}{}))",
        endian,
        back,
        if inits.is_empty() { "" } else { " " },
        inits.join(" "),
        if scs.is_empty() { "" } else { " " },
        scs.join(" ")
    );
    (state, endian.to_string(), if backed { "back".to_string() } else { "noback".to_string() })
}

fn fl_str(l: &FunctionLocation) -> String {
    match l {
        FunctionLocation::Instruction(b, i) => format!("(i {} {})", b, i),
        FunctionLocation::Edge(h, t) => format!("(e {} {})", h, t),
        FunctionLocation::EmptyBlock(b) => format!("(b {})", b),
    }
}

fn gen_at(rng: &mut Rng, p: &Program, wf: bool) -> String {
    let fs = p.functions();
    let f = if rng.chance(3, 4) { fs[0] } else { *rng.pick(&fs) };
    let fi = f.index().unwrap();
    if !wf && rng.chance(1, 12) {
        // arbitrary, possibly invalid
        let l = match rng.below(3) {
            0 => FunctionLocation::Instruction(rng.below(9) as usize, rng.below(7) as usize),
            1 => FunctionLocation::Edge(rng.below(9) as usize, rng.below(9) as usize),
            _ => FunctionLocation::EmptyBlock(rng.below(9) as usize),
        };
        let fi = if rng.chance(1, 6) { "-".to_string() } else { (fi + rng.below(2) as usize).to_string() };
        return format!("(at {} {})", fi, fl_str(&l));
    }
    let locs = f.locations();
    let l: FunctionLocation = if rng.chance(3, 4) {
        match RefProgramLocation::from_function(f) {
            Some(Ok(l)) => l.function_location().clone().into(),
            _ => rng.pick(&locs).clone().into(),
        }
    } else {
        rng.pick(&locs).clone().into()
    };
    format!("(at {} {})", fi, fl_str(&l))
}

fn terminal(ans: &str) -> String {
    let last = ans.rsplit(" ; ").next().unwrap_or("");
    last.split(' ').next().unwrap_or("").to_string()
}

fn generate(tier: Tier, rng: &mut Rng, emit: &mut Emit) {
    let programs = match tier {
        Tier::Quick => 4000,
        Tier::Thorough => 10000,
    };
    let watch = format!(
        "(watch {})",
        REGIONS.iter().map(|(a, n)| format!("({:#x} {})", a - 4, n + 8)).collect::<Vec<_>>().join(" ")
    );
    for k in 0..programs {
        let wf = k % 3 != 2;
        let g = gen_cfg_of(rng, wf);
        let p = gen_program7(rng, &g, wf);
        let ptxt = program_str(&p);
        for _ in 0..3 {
            let (state, en, bk) = gen_state(rng, &g, wf);
            let at = gen_at(rng, &p, wf);
            let steps = if rng.chance(1, 6) { rng.range(1, 6) } else { rng.range(8, 64) };
            let req = format!("{} {} {} (steps {}) {}", ptxt, state, at, steps, watch);
            let t = terminal(&catch(|| answer(&req)).unwrap_or_else(|| "panic".to_string()));
            let class = format!("{}/{}/{}/{}", if wf { "wf" } else { "ill" }, en, bk, t);
            emit.case(&class, req);
        }
    }
}

fn main() {
    run_main(&generate, &answer);
}
