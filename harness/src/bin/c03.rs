//! C03 — the AArch64 lifter agrees with the Arm architecture pseudocode.
//!
//! Request: `ins <arch> <hexbytes> <0xaddr> | <state>` (ONE instruction word, little-endian fetch for both
//! aarch64 and aarch64eb; state = `<l|b> ; reg=0xval:bits,… ; 0xaddr:hexbytes,…`).
//! Answer : `<BlockTranslationResult in FIL> | <post line of falcon's executor>` or `err:…` / `panic@…`.
//! The watch list of the post line is the list of registers of the request's state, in that order.
//!
//! The generator enumerates the class-defining bits of every encoding class the dispatcher of
//! lib/translator/aarch64/mod.rs can reach (and their reserved neighbours), samples the register and
//! immediate fields (always including register 31), and builds states in which every register a field
//! can name is defined, memory operands land inside a mapped window most of the time, and values sit on
//! carry/overflow edges or are random.
use fvh::lift::{arch, btr_str, bytes_hex, exec_btr, hex_bytes, lift_block, options, MachState};
use fvh::{run_main, Emit, Rng, Tier};

fn answer(line: &str) -> String {
    let (head, st) = match line.split_once(" | ") {
        Some(x) => x,
        None => return "bad-request".to_string(),
    };
    let f: Vec<&str> = head.split(' ').collect();
    if f.len() != 4 || f[0] != "ins" {
        return "bad-request".to_string();
    }
    let (a, bytes, addr, state) = match (
        arch(f[1]),
        hex_bytes(f[2]),
        u64::from_str_radix(f[3].trim_start_matches("0x"), 16).ok(),
        MachState::parse(st),
    ) {
        (Some(a), Some(b), Some(ad), Some(s)) => (a, b, ad, s),
        _ => return "bad-request".to_string(),
    };
    let r = match lift_block(a.as_ref(), &bytes, addr, &options(false)) {
        Ok(r) => r,
        Err(e) => return e,
    };
    let watch: Vec<String> = state.regs.iter().map(|(k, _)| k.clone()).collect();
    let post = exec_btr(&a, &r, &state, &watch, 64);
    format!("{} | {}", btr_str(&r), post)
}

// ------------------------------------------------------------------------------------------ states

#[derive(Clone, Copy)]
enum Kind {
    /// no memory operand
    Plain,
    /// base register field Rn, constant byte offset of the access from the base, access size in bytes
    MemImm { off: i64, size: u64, ordered: bool },
    /// base Rn, offset register Rm extended by `option` and shifted left by `sh`
    MemReg { option: u32, sh: u32, size: u64 },
    /// absolute address
    MemAbs { target: u64, size: u64 },
}

const EDGE64: [u64; 14] = [
    0,
    1,
    2,
    0x7f,
    0x80,
    0xff,
    0x7fff_ffff,
    0x8000_0000,
    0xffff_ffff,
    0x1_0000_0000,
    0x7fff_ffff_ffff_ffff,
    0x8000_0000_0000_0000,
    0xffff_ffff_ffff_fffe,
    0xffff_ffff_ffff_ffff,
];

fn val64(rng: &mut Rng) -> u64 {
    match rng.below(5) {
        4 => {
            // halves: a register whose low word is zero or whose upper word is set (W-form instructions must ignore it)
            match rng.below(3) {
                0 => rng.next() << 32,
                1 => (rng.next() << 32) | (rng.next() & 0xff),
                _ => 0xffff_ffff_0000_0000 | (rng.next() & 0xffff_ffff),
            }
        }
        0 => *rng.pick(&EDGE64),
        1 => {
            // near an edge
            let e = *rng.pick(&EDGE64);
            e.wrapping_add(rng.below(5)).wrapping_sub(2)
        }
        _ => rng.next(),
    }
}

struct St {
    big: bool,
    regs: Vec<(String, u128, usize)>,
    mem: Vec<(u64, Vec<u8>)>,
}

impl St {
    fn has(&self, n: &str) -> bool {
        self.regs.iter().any(|(k, _, _)| k == n)
    }
    fn add(&mut self, n: &str, v: u128, bits: usize) {
        if !self.has(n) {
            self.regs.push((n.to_string(), v, bits));
        }
    }
    fn set(&mut self, n: &str, v: u128) {
        for r in self.regs.iter_mut() {
            if r.0 == n {
                r.1 = v;
            }
        }
    }
    fn get(&self, n: &str) -> u128 {
        self.regs.iter().find(|(k, _, _)| k == n).map(|r| r.1).unwrap_or(0)
    }
    fn text(&self) -> String {
        let r: Vec<String> = self.regs.iter().map(|(k, v, b)| format!("{}=0x{:x}:{}", k, v, b)).collect();
        let m: Vec<String> = self.mem.iter().map(|(a, b)| format!("0x{:x}:{}", a, bytes_hex(b))).collect();
        format!("{} ; {} ; {}", if self.big { "b" } else { "l" }, r.join(","), m.join(","))
    }
}

fn xname(i: u32) -> String {
    if i == 31 {
        "sp".to_string()
    } else {
        format!("x{}", i)
    }
}

fn extend_off(v: u64, option: u32, sh: u32) -> u64 {
    let e = match option & 7 {
        0 => v & 0xff,
        1 => v & 0xffff,
        2 => v & 0xffff_ffff,
        3 => v,
        4 => v as u8 as i8 as i64 as u64,
        5 => v as u16 as i16 as i64 as u64,
        6 => v as u32 as i32 as i64 as u64,
        _ => v,
    };
    e.wrapping_shl(sh)
}

fn targets(rng: &mut Rng, size: u64, aligned: bool) -> u64 {
    let base = match rng.below(8) {
        0 | 1 | 2 => 0x20000 + 16 * rng.below(64),
        3 => 0x21000 - rng.range(1, size.max(2) * 2 - 1).min(0xfff), // crossing the page boundary at 0x21000
        4 => 0x7fff_ffff_f000 + 16 * rng.below(16),
        5 => 0xffff_ffff_0000_1000 + 16 * rng.below(16),
        6 => 0x1_0000_0000 - 8 * rng.below(3),
        _ => 0x4000 + rng.below(0x1000),
    };
    if aligned {
        base & !(size.max(1) - 1) & !0xf | (base & 0xf & !(size.max(1) - 1))
    } else if rng.chance(1, 2) {
        base + rng.below(16)
    } else {
        base
    }
}

fn window(rng: &mut Rng, st: &mut St, target: u64, size: u64) {
    // windows never wrap around the top of the address space (the harness's own memory builder adds offsets)
    if target < 8 || target.checked_add(size.max(8) + 16).is_none() {
        return;
    }
    match rng.below(24) {
        0 => {} // unmapped
        1 => {
            // only the first half of the access is mapped
            let n = (size / 2).max(1);
            let bytes: Vec<u8> = (0..n).map(|_| rng.next() as u8).collect();
            st.mem.push((target, bytes));
        }
        _ => {
            let lo = target.wrapping_sub(8);
            let n = 8 + size.max(8) + 8;
            let bytes: Vec<u8> = (0..n).map(|_| rng.next() as u8).collect();
            st.mem.push((lo, bytes));
        }
    }
}

/// `simd`: bit mask of the register fields (bit 0 = [4:0], 1 = [9:5], 2 = [14:10], 3 = [20:16]) that name V registers
fn mk_state(rng: &mut Rng, w: u32, big: bool, kind: Kind, simd: u32) -> St {
    let mut st = St { big, regs: Vec::new(), mem: Vec::new() };
    let fields = [w & 31, (w >> 5) & 31, (w >> 10) & 31, (w >> 16) & 31];
    for (k, f) in fields.iter().enumerate() {
        if simd & (1 << k) != 0 {
            let v = ((rng.next() as u128) << 64) | val64(rng) as u128;
            st.add(&format!("v{}", f), v, 128);
        }
        if *f < 31 {
            st.add(&format!("x{}", f), val64(rng) as u128, 64);
        }
    }
    st.add("sp", (if rng.chance(1, 2) { 0x7fff_0000 + 16 * rng.below(256) } else { val64(rng) }) as u128, 64);
    st.add("x30", val64(rng) as u128, 64);
    for _ in 0..2 {
        let i = rng.below(31) as u32;
        st.add(&format!("x{}", i), rng.next() as u128, 64);
    }
    for fl in ["n", "z", "c", "v"] {
        st.add(fl, rng.below(2) as u128, 1);
    }
    let rn = xname((w >> 5) & 31);
    match kind {
        Kind::Plain => {}
        Kind::MemImm { off, size, ordered } => {
            let al = ordered && !rng.chance(1, 8);
            let t = targets(rng, size, al);
            st.set(&rn, t.wrapping_sub(off as u64) as u128);
            window(rng, &mut st, t, size);
        }
        Kind::MemReg { option, sh, size } => {
            let t = targets(rng, size, false);
            let rm = (w >> 16) & 31;
            let mv: u64 = match rng.below(5) {
                0 => rng.below(64),
                1 => (-(rng.below(64) as i64)) as u64,
                2 => 0xffff_ff00 | rng.below(256),
                3 => 0x1_0000_0000 | rng.below(256) | (rng.below(2) << 31),
                _ => rng.next(),
            };
            if rm < 31 {
                st.set(&format!("x{}", rm), mv as u128);
            }
            let mval = if rm < 31 { st.get(&format!("x{}", rm)) as u64 } else { 0 };
            let off = extend_off(mval, option, sh);
            if rm != (w >> 5) & 31 || rm == 31 {
                st.set(&rn, t.wrapping_sub(off) as u128);
            }
            let eff = (st.get(&rn) as u64).wrapping_add(extend_off(if rm < 31 { st.get(&format!("x{}", rm)) as u64 } else { 0 }, option, sh));
            window(rng, &mut st, eff, size);
        }
        Kind::MemAbs { target, size } => window(rng, &mut st, target, size),
    }
    st
}

// ------------------------------------------------------------------------------------------ words

/// the class of a word: the encoding class and its class-defining bits (no register numbers, no immediates)
fn class_of(w: u32) -> String {
    let f = |hi: u32, lo: u32| (w >> lo) & ((1u32 << (hi - lo + 1)) - 1);
    let b = |i: u32| (w >> i) & 1;
    if w == 0xd503_201f {
        return "nop".into();
    }
    if w & 0xffff_f01f == 0xd503_201f {
        return "hint_other".into();
    }
    if f(28, 23) == 0b100010 {
        return format!("addsub_imm/sf{}_op{}_S{}_sh{}", b(31), b(30), b(29), b(22));
    }
    if f(28, 23) == 0b100100 {
        return format!("logic_imm/sf{}_opc{}_N{}{}", b(31), f(30, 29), b(22), if f(9, 5) == 31 { "_rn31" } else { "" });
    }
    if f(28, 23) == 0b100101 {
        return format!("mov_wide/sf{}_opc{}_hw{}", b(31), f(30, 29), f(22, 21));
    }
    if f(28, 24) == 0b01011 {
        return if b(21) == 1 {
            format!("addsub_ext/sf{}_op{}_S{}_opt{}{}", b(31), b(30), b(29), f(15, 13), if f(23, 22) != 0 { "_rsvd" } else if f(12, 10) > 4 { "_imm3rsvd" } else { "" })
        } else {
            format!("addsub_shift/sf{}_op{}_S{}_sh{}", b(31), b(30), b(29), f(23, 22))
        };
    }
    if f(28, 24) == 0b01010 {
        return format!("logic_shift/sf{}_opc{}_N{}{}", b(31), f(30, 29), b(21), if f(9, 5) == 31 { "_rn31" } else { "" });
    }
    if f(30, 26) == 0b00101 {
        return if b(31) == 0 { "b".into() } else { "bl".into() };
    }
    if f(31, 25) == 0b0101010 {
        return format!("b_cond/c{}_o1{}_o0{}", f(3, 0), b(24), b(4));
    }
    if f(30, 25) == 0b011010 {
        return format!("cbz/sf{}_op{}", b(31), b(24));
    }
    if f(30, 25) == 0b011011 {
        return format!("tbz/b5{}_op{}", b(31), b(24));
    }
    if f(31, 25) == 0b1101011 {
        return format!("br_reg/opc{}{}", f(24, 21), if f(20, 16) != 31 || f(15, 10) != 0 || f(4, 0) != 0 { "_rsvd" } else { "" });
    }
    if f(29, 27) == 0b111 && b(25) == 0 {
        let tag = format!("sz{}_V{}_opc{}", f(31, 30), b(26), f(23, 22));
        if b(24) == 1 {
            return format!("ldst_uimm/{}", tag);
        }
        if b(21) == 0 {
            return format!("ldst_imm9_m{}/{}", f(11, 10), tag);
        }
        if f(11, 10) == 2 {
            return format!("ldst_regoff/{}_o{}_S{}", tag, f(15, 13), b(12));
        }
        return format!("ldst_other/{}_b{}", tag, f(11, 10));
    }
    if f(29, 27) == 0b011 && f(25, 24) == 0 {
        return format!("ld_literal/opc{}_V{}", f(31, 30), b(26));
    }
    if f(29, 27) == 0b101 && b(25) == 0 {
        return format!("ldst_pair/opc{}_V{}_m{}_L{}", f(31, 30), b(26), f(25, 23), b(22));
    }
    if f(29, 24) == 0b001000 {
        return format!("ldst_ordered/sz{}_o2{}_L{}_o1{}_o0{}", f(31, 30), b(23), b(22), b(21), b(15));
    }
    if f(29, 24) == 0b011001 {
        return format!("ldst_rcpc_unscaled/sz{}_opc{}{}", f(31, 30), f(23, 22), if b(21) != 0 || f(11, 10) != 0 { "_other" } else { "" });
    }
    format!("other/op0_{:x}", f(28, 25))
}

fn regs_sample(rng: &mut Rng) -> u32 {
    match rng.below(6) {
        0 => 31,
        1 => 30,
        2 => 0,
        _ => rng.below(32) as u32,
    }
}

struct Gen<'a, 'b, 'c> {
    rng: &'a mut Rng,
    em: &'b mut Emit<'c>,
    states: u64,
}

impl<'a, 'b, 'c> Gen<'a, 'b, 'c> {
    fn put(&mut self, _gen: &str, w: u32, addr: u64, kind: Kind, simd: u32) {
        let class = &class_of(w);
        for _ in 0..self.states {
            let both = !matches!(kind, Kind::Plain) || self.rng.chance(1, 4);
            let mut st = mk_state(self.rng, w, false, kind, simd);
            // flag-setting add/sub in the register forms: a third of the states give BOTH source operands a signed
            // boundary value of the operand width (INT_MIN, INT_MAX, 0, 1, -1) — overflow slips live at exactly one value
            if class.starts_with("addsub_") && !class.starts_with("addsub_imm") && (w >> 29) & 1 == 1 && self.rng.chance(1, 3) {
                let sf = (w >> 31) & 1;
                let (mn, mx): (u64, u64) = if sf == 1 { (1 << 63, (1 << 63) - 1) } else { (1 << 31, (1 << 31) - 1) };
                let pool = [mn, mn, mx, 0, 1, if sf == 1 { u64::MAX } else { 0xffff_ffff }];
                for field in [(w >> 16) & 31, (w >> 5) & 31] {
                    if field != 31 || class.starts_with("addsub_ext") {
                        let v = *self.rng.pick(&pool);
                        // W forms must ignore the upper half: leave garbage there half of the time
                        let v = if sf == 0 && self.rng.chance(1, 2) { v | (self.rng.next() << 32) } else { v };
                        st.set(&xname(field), v as u128);
                    }
                }
            }
            let bytes = w.to_le_bytes();
            self.em.case(&format!("aarch64/{}", class), format!("ins aarch64 {} 0x{:x} | {}", bytes_hex(&bytes), addr, st.text()));
            if both {
                let mut sb = st;
                sb.big = true;
                self.em.case(&format!("aarch64eb/{}", class), format!("ins aarch64eb {} 0x{:x} | {}", bytes_hex(&bytes), addr, sb.text()));
            }
        }
    }
    fn addr(&mut self) -> u64 {
        *self.rng.pick(&[0x1000u64, 0x40_0000, 0x40_0004, 0x7fff_fff8, 0xffff_fffc, 0x1234_5678_9abc_def0])
    }
    fn r(&mut self) -> u32 {
        regs_sample(self.rng)
    }
}

fn imm_sample(rng: &mut Rng, bits: u32) -> u32 {
    let m = (1u32 << bits) - 1;
    match rng.below(6) {
        0 => 0,
        1 => 1,
        2 => m,
        3 => 1 << (bits - 1),
        4 => (1 << (bits - 1)) - 1,
        _ => rng.next() as u32 & m,
    }
}

fn gen_addsub(g: &mut Gen, n: u64) {
    // immediate: sf op S 100010 sh imm12 Rn Rd  (bit 23 = 1 is the tag form, reserved here)
    for sf in 0..2u32 {
        for op in 0..2u32 {
            for s in 0..2u32 {
                for sh in 0..2u32 {
                    for _ in 0..n {
                        let (rd, rn) = (g.r(), g.r());
                        let imm = imm_sample(g.rng, 12);
                        let w = (sf << 31) | (op << 30) | (s << 29) | (0b100010 << 23) | (sh << 22) | (imm << 10) | (rn << 5) | rd;
                        let a = g.addr();
                        g.put(&format!("addsub_imm/sf{}_op{}_S{}_sh{}", sf, op, s, sh), w, a, Kind::Plain, 0);
                    }
                }
                // shifted register: sf op S 01011 shift 0 Rm imm6 Rn Rd
                for shift in 0..4u32 {
                    for _ in 0..n {
                        let (rd, rn, rm) = (g.r(), g.r(), g.r());
                        let imm6 = *g.rng.pick(&[0u32, 0, 1, 2, 15, 31, 32, 33, 63, 7, 24, 28]);
                        let w = (sf << 31) | (op << 30) | (s << 29) | (0b01011 << 24) | (shift << 22) | (rm << 16) | (imm6 << 10) | (rn << 5) | rd;
                        let a = g.addr();
                        g.put(&format!("addsub_shift/sf{}_op{}_S{}_sh{}", sf, op, s, shift), w, a, Kind::Plain, 0);
                    }
                }
                // extended register: sf op S 01011 opt 1 Rm option imm3 Rn Rd
                for option in 0..8u32 {
                    for imm3 in 0..8u32 {
                        let reps = if imm3 > 4 { 1 } else { (n / 3).max(1) };
                        for _ in 0..reps {
                            let (rd, rn, rm) = (g.r(), g.r(), g.r());
                            let opt = if g.rng.chance(1, 16) { g.rng.below(4) as u32 } else { 0 };
                            let w = (sf << 31) | (op << 30) | (s << 29) | (0b01011 << 24) | (opt << 22) | (1 << 21) | (rm << 16) | (option << 13) | (imm3 << 10) | (rn << 5) | rd;
                            let a = g.addr();
                            g.put(&format!("addsub_ext/sf{}_op{}_S{}_opt{}", sf, op, s, option), w, a, Kind::Plain, 0);
                        }
                    }
                }
            }
        }
    }
}

fn gen_mov(g: &mut Gen, n: u64) {
    for sf in 0..2u32 {
        // ORR (shifted register) with Rn = 31: sf 01 01010 shift N Rm imm6 Rn Rd   (N=0)
        for _ in 0..(4 * n) {
            let (rd, mut rm) = (g.r(), g.r());
            if g.rng.chance(1, 4) {
                rm = rd; // mov wN, wN: the zero-extension idiom
            }
            let plain = g.rng.chance(3, 4);
            let shift = if plain { 0 } else { g.rng.below(4) as u32 };
            let imm6 = if plain { 0 } else { g.rng.below(64) as u32 };
            let rn = if g.rng.chance(7, 8) { 31 } else { g.r() };
            let w = (sf << 31) | (0b01 << 29) | (0b01010 << 24) | (shift << 22) | (rm << 16) | (imm6 << 10) | (rn << 5) | rd;
            let a = g.addr();
            g.put(&format!("mov_reg/sf{}", sf), w, a, Kind::Plain, 0);
        }
        // MOVN (opc 00) / MOVZ (opc 10) / MOVK (opc 11): sf opc 100101 hw imm16 Rd
        for opc in [0u32, 2, 3] {
            for hw in 0..4u32 {
                for _ in 0..n {
                    let rd = g.r();
                    let imm = imm_sample(g.rng, 16);
                    let w = (sf << 31) | (opc << 29) | (0b100101 << 23) | (hw << 21) | (imm << 5) | rd;
                    let a = g.addr();
                    g.put(&format!("mov_wide/sf{}_opc{}_hw{}", sf, opc, hw), w, a, Kind::Plain, 0);
                }
            }
        }
        // ORR (immediate) with Rn = 31: sf 01 100100 N immr imms Rn Rd
        for nn in 0..2u32 {
            for _ in 0..(8 * n) {
                let rd = g.r();
                let immr = g.rng.below(64) as u32;
                let imms = if g.rng.chance(1, 4) { *g.rng.pick(&[0u32, 0x3f, 0x3e, 0x1f, 0x3c, 0x38, 0x30, 0x20, 0x2f, 0x37, 0x3b, 0x3d]) } else { g.rng.below(64) as u32 };
                let rn = if g.rng.chance(7, 8) { 31 } else { g.r() };
                let w = (sf << 31) | (0b01 << 29) | (0b100100 << 23) | (nn << 22) | (immr << 16) | (imms << 10) | (rn << 5) | rd;
                let a = g.addr();
                g.put(&format!("mov_bitmask/sf{}_N{}", sf, nn), w, a, Kind::Plain, 0);
            }
        }
    }
}

fn gen_hint(g: &mut Gen) {
    // HINT #imm7: 1101 0101 0000 0011 0010 CRm op2 11111
    for x in 0..128u32 {
        let w = 0xd503_201f | (x << 5);
        let a = g.addr();
        g.put(if x == 0 { "nop" } else { "hint_other" }, w, a, Kind::Plain, 0);
    }
}

fn size_bytes(size: u32, v: u32, opc: u32) -> u64 {
    if v == 1 {
        if size == 0 && opc & 2 != 0 {
            16
        } else {
            1 << size
        }
    } else {
        1 << size
    }
}

fn gen_ldst_single(g: &mut Gen, n: u64) {
    for size in 0..4u32 {
        for v in 0..2u32 {
            for opc in 0..4u32 {
                let simd = if v == 1 { 1 } else { 0 };
                let bytes = size_bytes(size, v, opc);
                let scale = if v == 1 && size == 0 && opc & 2 != 0 { 4 } else { size };
                let tag = format!("sz{}_V{}_opc{}", size, v, opc);
                // unsigned immediate: size 111 V 01 opc imm12 Rn Rt
                for _ in 0..n {
                    let (rt, rn) = (g.r(), g.r());
                    let imm = imm_sample(g.rng, 12);
                    let w = (size << 30) | (0b111 << 27) | (v << 26) | (0b01 << 24) | (opc << 22) | (imm << 10) | (rn << 5) | rt;
                    let a = g.addr();
                    g.put(&format!("ldst_uimm/{}", tag), w, a, Kind::MemImm { off: ((imm as u64) << scale) as i64, size: bytes, ordered: false }, simd);
                }
                // unscaled (00), post-index (01), unprivileged (10), pre-index (11): size 111 V 00 opc 0 imm9 mode Rn Rt
                for mode in 0..4u32 {
                    for _ in 0..n {
                        let (rt, rn) = (g.r(), g.r());
                        let imm = imm_sample(g.rng, 9);
                        let simm = ((imm as i64) << 55) >> 55;
                        let w = (size << 30) | (0b111 << 27) | (v << 26) | (opc << 22) | (imm << 12) | (mode << 10) | (rn << 5) | rt;
                        let a = g.addr();
                        let off = if mode == 1 { 0 } else { simm };
                        g.put(&format!("ldst_imm9_m{}/{}", mode, tag), w, a, Kind::MemImm { off, size: bytes, ordered: false }, simd);
                    }
                }
                // register offset: size 111 V 00 opc 1 Rm option S 10 Rn Rt
                for option in 0..8u32 {
                    for s in 0..2u32 {
                        let reps = if option & 2 == 0 { 1 } else { (n / 2).max(1) };
                        for _ in 0..reps {
                            let (rt, rn, rm) = (g.r(), g.r(), g.r());
                            let w = (size << 30) | (0b111 << 27) | (v << 26) | (opc << 22) | (1 << 21) | (rm << 16) | (option << 13) | (s << 12) | (0b10 << 10) | (rn << 5) | rt;
                            let a = g.addr();
                            g.put(&format!("ldst_regoff/{}_o{}_S{}", tag, option, s), w, a, Kind::MemReg { option, sh: if s == 1 { scale } else { 0 }, size: bytes }, simd);
                        }
                    }
                }
                // LDAPUR/STLUR: size 011001 opc 0 imm9 00 Rn Rt
                if v == 0 {
                    for _ in 0..n {
                        let (rt, rn) = (g.r(), g.r());
                        let imm = imm_sample(g.rng, 9);
                        let simm = ((imm as i64) << 55) >> 55;
                        let w = (size << 30) | (0b011001 << 24) | (opc << 22) | (imm << 12) | (rn << 5) | rt;
                        let a = g.addr();
                        g.put(&format!("ldst_rcpc_unscaled/{}", tag), w, a, Kind::MemImm { off: simm, size: bytes, ordered: true }, 0);
                    }
                }
            }
        }
    }
}

fn gen_ordered(g: &mut Gen, n: u64) {
    // size 001000 o2 L o1 Rs o0 Rt2 Rn Rt
    for size in 0..4u32 {
        for o2 in 0..2u32 {
            for l in 0..2u32 {
                for o1 in 0..2u32 {
                    for o0 in 0..2u32 {
                        for _ in 0..n {
                            let (rt, rn) = (g.r(), g.r());
                            let ones = g.rng.chance(7, 8);
                            let rs = if ones { 31 } else { g.r() };
                            let rt2 = if ones { 31 } else { g.r() };
                            let w = (size << 30) | (0b001000 << 24) | (o2 << 23) | (l << 22) | (o1 << 21) | (rs << 16) | (o0 << 15) | (rt2 << 10) | (rn << 5) | rt;
                            let a = g.addr();
                            g.put(&format!("ldst_ordered/sz{}_o2{}_L{}_o1{}_o0{}", size, o2, l, o1, o0), w, a, Kind::MemImm { off: 0, size: 1 << size, ordered: true }, 0);
                        }
                    }
                }
            }
        }
    }
}

fn gen_pair(g: &mut Gen, n: u64) {
    // opc 101 V mode(3) L imm7 Rt2 Rn Rt      mode: 000 no-allocate, 001 post, 010 offset, 011 pre
    for opc in 0..4u32 {
        for v in 0..2u32 {
            for mode in 0..4u32 {
                for l in 0..2u32 {
                    for _ in 0..n {
                        let (rt, rn) = (g.r(), g.r());
                        let rt2 = if g.rng.chance(1, 10) { rt } else { g.r() };
                        let imm = imm_sample(g.rng, 7);
                        let simm = ((imm as i64) << 57) >> 57;
                        let scale = if v == 1 { 2 + opc } else { 2 + (opc >> 1) };
                        let bytes = 2u64 << scale;
                        let w = (opc << 30) | (0b101 << 27) | (v << 26) | (mode << 23) | (l << 22) | (imm << 15) | (rt2 << 10) | (rn << 5) | rt;
                        let a = g.addr();
                        let off = if mode == 1 { 0 } else { simm << scale };
                        g.put(&format!("ldst_pair/opc{}_V{}_m{}_L{}", opc, v, mode, l), w, a, Kind::MemImm { off, size: bytes.min(32), ordered: false }, if v == 1 { 0b101 } else { 0 });
                    }
                }
            }
        }
    }
}

fn gen_literal(g: &mut Gen, n: u64) {
    // opc 011 V 00 imm19 Rt
    for opc in 0..4u32 {
        for v in 0..2u32 {
            for _ in 0..(2 * n) {
                let rt = g.r();
                let imm = match g.rng.below(4) {
                    0 => g.rng.below(64) as u32,
                    1 => 0x7ffff - g.rng.below(64) as u32,
                    _ => imm_sample(g.rng, 19),
                };
                let simm = ((imm as i64) << 45) >> 45;
                let a = g.addr();
                let target = a.wrapping_add((simm * 4) as u64);
                let bytes = if v == 1 { 4u64 << opc } else if opc == 1 { 8 } else { 4 };
                let w = (opc << 30) | (0b011 << 27) | (v << 26) | (imm << 5) | rt;
                g.put(&format!("ld_literal/opc{}_V{}", opc, v), w, a, Kind::MemAbs { target, size: bytes.min(16) }, if v == 1 { 1 } else { 0 });
            }
        }
    }
}

fn gen_branch(g: &mut Gen, n: u64) {
    for op in 0..2u32 {
        for _ in 0..(3 * n) {
            let imm = imm_sample(g.rng, 26);
            let w = (op << 31) | (0b00101 << 26) | imm;
            let a = g.addr();
            g.put(if op == 0 { "b" } else { "bl" }, w, a, Kind::Plain, 0);
        }
    }
    // B.cond: 0101010 o1 imm19 o0 cond
    for cond in 0..16u32 {
        for o1 in 0..2u32 {
            for o0 in 0..2u32 {
                let reps = if o1 == 0 && o0 == 0 { n } else { 1 };
                for _ in 0..reps {
                    let imm = imm_sample(g.rng, 19);
                    let w = (0b0101010 << 25) | (o1 << 24) | (imm << 5) | (o0 << 4) | cond;
                    let a = g.addr();
                    g.put(&format!("b_cond/c{}_o1{}_o0{}", cond, o1, o0), w, a, Kind::Plain, 0);
                }
            }
        }
    }
    // CBZ/CBNZ: sf 011010 op imm19 Rt
    for sf in 0..2u32 {
        for op in 0..2u32 {
            for _ in 0..(2 * n) {
                let imm = imm_sample(g.rng, 19);
                let rt = g.r();
                let w = (sf << 31) | (0b011010 << 25) | (op << 24) | (imm << 5) | rt;
                let a = g.addr();
                g.put(&format!("cbz/sf{}_op{}", sf, op), w, a, Kind::Plain, 0);
            }
        }
    }
    // TBZ/TBNZ: b5 011011 op b40 imm14 Rt
    for b5 in 0..2u32 {
        for op in 0..2u32 {
            for b40 in 0..32u32 {
                for _ in 0..(n / 4).max(1) {
                    let imm = imm_sample(g.rng, 14);
                    let rt = g.r();
                    let w = (b5 << 31) | (0b011011 << 25) | (op << 24) | (b40 << 19) | (imm << 5) | rt;
                    let a = g.addr();
                    g.put(&format!("tbz/b5{}_op{}", b5, op), w, a, Kind::Plain, 0);
                }
            }
        }
    }
    // unconditional branch (register): 1101011 opc op2 op3 Rn op4
    for opc in 0..16u32 {
        let reps = if opc < 3 { 4 * n } else { 1 };
        for _ in 0..reps {
            let rn = g.r();
            let exact = g.rng.chance(7, 8);
            let op2 = if exact { 31 } else { g.rng.below(32) as u32 };
            let op3 = if exact { 0 } else { g.rng.below(64) as u32 };
            let op4 = if exact { 0 } else { g.rng.below(32) as u32 };
            let w = (0b1101011 << 25) | (opc << 21) | (op2 << 16) | (op3 << 10) | (rn << 5) | op4;
            let a = g.addr();
            g.put(&format!("br_reg/opc{}", opc), w, a, Kind::Plain, 0);
        }
    }
}

/// uniformly random words: what else does the dispatcher accept?  (the specification answers `unallocated`
/// for words outside its classes; such cases are counted, not compared)
fn gen_sweep(g: &mut Gen, n: u64) {
    for _ in 0..n {
        let w = g.rng.next() as u32;
        let a = g.addr();
        let cls = format!("sweep/op0_{:x}", (w >> 25) & 0xf);
        let v = (w >> 26) & 1;
        let ldst = (w >> 27) & 1 == 1 && (w >> 25) & 1 == 0;
        g.put(&cls, w, a, Kind::MemImm { off: 0, size: 16, ordered: false }, if ldst && v == 1 { 0b101 } else { 0 });
    }
}

fn generate(tier: Tier, rng: &mut Rng, em: &mut Emit) {
    let (n, states, sweep) = if tier == Tier::Quick { (24, 3, 10_000) } else { (30, 4, 50_000) };
    let mut g = Gen { rng, em, states };
    gen_addsub(&mut g, n);
    gen_mov(&mut g, n);
    gen_hint(&mut g);
    gen_ldst_single(&mut g, n);
    gen_ordered(&mut g, (n / 2).max(1));
    gen_pair(&mut g, n);
    gen_literal(&mut g, n);
    gen_branch(&mut g, n);
    g.states = 1;
    gen_sweep(&mut g, sweep);
}

fn main() {
    let _ = hex_bytes;
    run_main(&generate, &answer);
}
