//! C06 — function recovery reproduces sequential machine-code execution.
//!
//! request  = `fnrec <arch> <0xbase> <hexcode> <0xentry> m=<head>-<tail>,… steps=<n> | <state>`
//! answer   = `fn <FIL of the lifted function> | trace <a0,a1,…> | post <post line> | oracle (at <0xaddr> <btr>)… | tr (at <0xaddr> <btr|empty>)…`
//!            or `err:…` / `panic@…` from translate_function_extended.
//!   * `trace`/`post`: falcon's executor (`Driver::step`) over the lifted function from the entry, recording the
//!     native address of every IL instruction it executes (consecutive duplicates removed), for at most `steps`
//!     native instructions; it stops at an `Operation::Branch` (next = evaluated target), when control leaves the
//!     code (no location), or on an error.
//!   * `oracle`: for every address the single-step reference visits, the lifted form of the ONE native
//!     instruction at that address (MIPS: a branch together with its delay slot), obtained from the same
//!     translator by lifting the bytes at that address and keeping the first instruction.
//!   * `tr`: the translation results the work list of `translate_function_extended` uses, in address order
//!     (the work list is replicated here with the real `translate_block` on `get_bytes(addr, 64)`; `empty` = no
//!     bytes); the Lean model of the assembly algorithm (FalconModel/Assemble.lean) is run on them and its result
//!     compared with the recovered function.
//!
//! second request kind (the assembly algorithm alone, on synthetic translation results):
//!   request = `asm <0xentry> | (at <0xaddr> <btr|empty|fail>)… (manual <0xhead> <0xtail> <-|cond>)…`   (addresses not listed: no bytes)
//!   answer  = `fn <FIL>` | `err:…` | `panic@…` of the REAL `translate_function_extended` (the trait's provided method)
//!             run with a table translator (`translate_block(_, addr)` = the table entry at `addr`, `Err` if there is
//!             none, i.e. `fail`) over a memory that has bytes exactly at the `btr` and `fail` addresses.
//!   The Lean driver runs `Assemble.translateFunction` on the same table and compares.
//! The Lean driver recomputes both runs with its own IL semantics and compares; it also checks the structural
//! clauses (no dangling edge, entry = function address, every instruction address in exactly one block).
use falcon::architecture::{Architecture, Endian};
use falcon::executor::{Driver, Memory, State};
use falcon::il::{self, FunctionLocation, Operation, Program, ProgramLocation, RefFunctionLocation};
use falcon::memory::{backing, MemoryPermissions};
use falcon::translator::{BlockTranslationResult, ManualEdge, Options, OptionsBuilder, TranslationMemory, Translator};
use falcon::RC;
use fvh::canon::{catch, const_str, err_str, last_panic};
use fvh::fil::function_str;
use fvh::lift::{arch, btr_str, bytes_hex, exec_btr, hex_bytes, scalars_of, MachState};
use fvh::{run_main, Emit, Rng, Tier};
use std::collections::BTreeMap;

#[path = "c06/machine.rs"]
mod machine;

struct Req {
    arch: String,
    base: u64,
    code: Vec<u8>,
    entry: u64,
    manual: Vec<(u64, u64)>,
    steps: usize,
    state: MachState,
}

fn parse(line: &str) -> Option<Req> {
    let (head, st) = line.split_once(" | ")?;
    let f: Vec<&str> = head.split(' ').collect();
    if f.len() != 7 || f[0] != "fnrec" {
        return None;
    }
    let hx = |s: &str| u64::from_str_radix(s.trim_start_matches("0x"), 16).ok();
    let mut manual = Vec::new();
    for p in f[5].strip_prefix("m=")?.split(',').filter(|x| !x.is_empty()) {
        let (h, t) = p.split_once('-')?;
        manual.push((hx(h)?, hx(t)?));
    }
    Some(Req {
        arch: f[1].to_string(),
        base: hx(f[2])?,
        code: hex_bytes(f[3])?,
        entry: hx(f[4])?,
        manual,
        steps: f[6].strip_prefix("steps=")?.parse().ok()?,
        state: MachState::parse(st)?,
    })
}

fn code_memory(a: &dyn Architecture, r: &Req) -> backing::Memory {
    let mut b = backing::Memory::new(a.endian());
    b.set_memory(r.base, r.code.clone(), MemoryPermissions::READ | MemoryPermissions::EXECUTE);
    b
}

/// the lifted form of the one native instruction (MIPS: branch + delay slot) at `pc`
fn single(a: &dyn Architecture, mem: &backing::Memory, pc: u64) -> Result<BlockTranslationResult, String> {
    let bytes = mem.get_bytes(pc, 16);
    if bytes.is_empty() {
        return Err("unmapped".to_string());
    }
    let opts = Options::default();
    let fixed = !(a.name() == "x86" || a.name() == "amd64");
    let try_lift = |n: usize| -> Result<BlockTranslationResult, String> {
        let n = n.min(bytes.len());
        match catch(|| a.translator().translate_block(&bytes[..n], pc, &opts)) {
            None => Err(format!("panic@{}", last_panic())),
            Some(Err(e)) => Err(err_str(&e).to_string()),
            Some(Ok(r)) => Ok(r),
        }
    };
    let r = if fixed {
        match try_lift(4) {
            Ok(r) => r,
            Err(_) => try_lift(8)?, // a MIPS branch needs its delay slot
        }
    } else {
        try_lift(16)?
    };
    // keep the first native instruction only (MIPS branch blocks are already one unit)
    let is_mips_branch_unit = a.name().starts_with("mips") && r.instructions().iter().any(|(ad, _)| ad % 4 == 1);
    if r.instructions().len() <= 1 || is_mips_branch_unit {
        return Ok(r);
    }
    let first = r.instructions()[0].clone();
    let next = r.instructions()[1].0;
    Ok(BlockTranslationResult::new(vec![first], pc, (next - pc) as usize, vec![(next, None)]))
}

// ------------------------------------------------------------------------------------------ table translator

struct TableMem(std::collections::BTreeSet<u64>);

impl TranslationMemory for TableMem {
    fn permissions(&self, address: u64) -> Option<MemoryPermissions> {
        if self.0.contains(&address) {
            Some(MemoryPermissions::READ | MemoryPermissions::EXECUTE)
        } else {
            None
        }
    }
    fn get_u8(&self, address: u64) -> Option<u8> {
        if self.0.contains(&address) {
            Some(0)
        } else {
            None
        }
    }
}

struct TableTranslator(BTreeMap<u64, BlockTranslationResult>);

impl Translator for TableTranslator {
    fn translate_block(&self, _bytes: &[u8], address: u64, _options: &Options) -> Result<BlockTranslationResult, falcon::Error> {
        self.0.get(&address).cloned().ok_or_else(|| "no table entry".into())
    }
}

fn read_btr(x: &fvh::sx::Sx) -> Option<BlockTranslationResult> {
    let l = x.list()?;
    if l.first()?.atom()? != "btr" || l.len() < 3 {
        return None;
    }
    let addr = l[1].u64()?;
    let len = l[2].usize()?;
    let mut instrs = Vec::new();
    let mut succs = Vec::new();
    for it in &l[3..] {
        let il_ = it.list()?;
        match il_.first()?.atom()? {
            "fn" => {
                let f = fvh::fil::read_function(it)?;
                instrs.push((f.address(), f.control_flow_graph().clone()));
            }
            "succ" => {
                let c = if il_[2].atom() == Some("-") { None } else { Some(fvh::fil::read_expr(&il_[2])?) };
                succs.push((il_[1].u64()?, c));
            }
            _ => return None,
        }
    }
    Some(BlockTranslationResult::new(instrs, addr, len, succs))
}

fn answer_asm(line: &str) -> String {
    let bad = "bad-request".to_string();
    let (head, body) = match line.split_once(" | ") {
        Some(p) => p,
        None => return bad,
    };
    let hf: Vec<&str> = head.split(' ').collect();
    if hf.len() != 2 {
        return bad;
    }
    let entry = match u64::from_str_radix(hf[1].trim_start_matches("0x"), 16) {
        Ok(e) => e,
        Err(_) => return bad,
    };
    let items = match fvh::sx::parse_all(body) {
        Some(x) => x,
        None => return bad,
    };
    let mut table = BTreeMap::new();
    let mut present = std::collections::BTreeSet::new();
    let mut ob = OptionsBuilder::new();
    for it in &items {
        let l = match it.list() {
            Some(l) => l,
            None => return bad,
        };
        match (l.first().and_then(|x| x.atom()), l.len()) {
            (Some("at"), 3) => {
                let a = match l[1].u64() {
                    Some(a) => a,
                    None => return bad,
                };
                if l[2].atom() == Some("empty") {
                    continue;
                }
                if l[2].atom() == Some("fail") {
                    present.insert(a); // bytes, but `translate_block` fails there
                    continue;
                }
                match read_btr(&l[2]) {
                    Some(b) => {
                        table.insert(a, b);
                        present.insert(a);
                    }
                    None => return bad,
                }
            }
            (Some("manual"), 4) => {
                let (h, t) = match (l[1].u64(), l[2].u64()) {
                    (Some(h), Some(t)) => (h, t),
                    _ => return bad,
                };
                let c = if l[3].atom() == Some("-") {
                    None
                } else {
                    match fvh::fil::read_expr(&l[3]) {
                        Some(c) => Some(c),
                        None => return bad,
                    }
                };
                ob = ob.add_manual_edge(ManualEdge::new(h, t, c));
            }
            _ => return bad,
        }
    }
    let opts = ob.build();
    let mem = TableMem(present);
    let tr = TableTranslator(table);
    match catch(|| tr.translate_function_extended(&mem, entry, &opts)) {
        None => format!("panic@{}", last_panic()),
        Some(Err(e)) => err_str(&e).to_string(),
        Some(Ok(f)) => format!("fn {}", function_str(&f)),
    }
}

/// a small instruction graph at `addr`: one block, a diamond, or a loop, with entry and exit
fn synth_graph(rng: &mut Rng, addr: u64) -> il::ControlFlowGraph {
    let mut g = il::ControlFlowGraph::new();
    let k = rng.below(4);
    let nb = if k == 0 { 1 } else if k == 1 { 2 } else { 3 };
    for i in 0..nb {
        let b = g.new_block().unwrap();
        for _ in 0..rng.below(3) {
            if rng.chance(1, 2) {
                b.nop();
            } else {
                b.assign(il::scalar("r", 32), il::expr_const(addr + i as u64, 32));
            }
        }
    }
    let c = || il::Expression::cmpeq(il::expr_scalar("r", 32), il::expr_const(1, 32)).unwrap();
    match k {
        1 => g.unconditional_edge(0, 1).unwrap(),
        2 => {
            g.conditional_edge(0, 1, c()).unwrap();
            g.conditional_edge(0, 2, il::Expression::cmpneq(il::expr_scalar("r", 32), il::expr_const(1, 32)).unwrap()).unwrap();
            g.unconditional_edge(1, 2).unwrap();
        }
        3 => {
            g.conditional_edge(0, 1, c()).unwrap();
            g.conditional_edge(0, 2, il::Expression::cmpneq(il::expr_scalar("r", 32), il::expr_const(1, 32)).unwrap()).unwrap();
            g.unconditional_edge(1, 0).unwrap();
        }
        _ => {}
    }
    g.set_entry(0).unwrap();
    g.set_exit(nb - 1).unwrap();
    g.set_address(Some(addr));
    g
}

fn gen_asm(rng: &mut Rng, em: &mut Emit, n: usize) {
    for _ in 0..n {
        let slots = rng.range(2, 7) as usize; // candidate addresses 0x1000 + 4k
        let addr = |k: usize| 0x1000u64 + 4 * k as u64;
        let mut items: Vec<String> = Vec::new();
        let (mut has_empty_list, mut has_missing, mut has_shared, mut has_emptywin) = (false, false, false, false);
        let mut seen_instr: std::collections::BTreeSet<u64> = std::collections::BTreeSet::new();
        for k in 0..slots {
            let r = rng.below(20);
            if r == 0 {
                has_missing = true; // bytes but no table entry: translate_block fails if the work list gets here
                items.push(format!("(at 0x{:x} fail)", addr(k)));
                continue;
            }
            if r == 1 {
                has_emptywin = true;
                items.push(format!("(at 0x{:x} empty)", addr(k)));
                continue;
            }
            // instructions: a run of consecutive slots starting here (windows overlap with later results),
            // rarely none at all (the PPC `bc`-first shape), rarely an incoherent address
            let ni = if rng.chance(1, 12) { 0 } else { rng.range(1, 3) as usize };
            if ni == 0 {
                has_empty_list = true;
            }
            let mut instrs = Vec::new();
            for j in 0..ni {
                let a = if rng.chance(1, 15) { addr(rng.below(slots as u64) as usize) } else { addr(k + j) };
                if !seen_instr.insert(a) {
                    has_shared = true;
                }
                instrs.push((a, synth_graph(rng, a)));
            }
            let mut succs = Vec::new();
            for _ in 0..rng.below(3) {
                let t = if rng.chance(1, 15) { addr(slots + rng.below(2) as usize) } else { addr(rng.below(slots as u64) as usize) };
                let c = if rng.chance(1, 2) {
                    Some(il::Expression::cmpeq(il::expr_scalar("f", 1), il::expr_const(rng.below(2), 1)).unwrap())
                } else {
                    None
                };
                succs.push((t, c));
            }
            let b = BlockTranslationResult::new(instrs, addr(k), 4 * ni, succs);
            items.push(format!("(at 0x{:x} {})", addr(k), btr_str(&b)));
        }
        let nm = if rng.chance(1, 3) { rng.range(1, 2) } else { 0 };
        for _ in 0..nm {
            let c = if rng.chance(1, 3) { "(cmpeq (s f 1) (c 0x1 1))" } else { "-" };
            items.push(format!("(manual 0x{:x} 0x{:x} {})", addr(rng.below(slots as u64) as usize), addr(rng.below(slots as u64) as usize), c));
        }
        let b = |x: bool| if x { 1 } else { 0 };
        let cls = format!(
            "asm/emptylist{}/missing{}/emptywin{}/shared{}/manual{}",
            b(has_empty_list),
            b(has_missing),
            b(has_emptywin),
            b(has_shared),
            b(nm > 0)
        );
        em.case(&cls, format!("asm 0x{:x} | {}", addr(rng.below(2) as usize), items.join(" ")));
    }
}


/// the work list of `translate_function_extended`, replicated with the real `translate_block`
fn worklist(a: &dyn Architecture, mem: &backing::Memory, r: &Req, opts: &Options) -> Vec<String> {
    use std::collections::VecDeque;
    let mut queue: VecDeque<u64> = VecDeque::new();
    let mut results: BTreeMap<u64, String> = BTreeMap::new();
    queue.push_front(r.entry);
    for (h, t) in &r.manual {
        queue.push_back(*h);
        queue.push_back(*t);
    }
    while let Some(addr) = queue.pop_front() {
        if results.contains_key(&addr) {
            continue;
        }
        let bytes = mem.get_bytes(addr, 64);
        if bytes.is_empty() {
            results.insert(addr, "empty".to_string());
            continue;
        }
        let b = match catch(|| a.translator().translate_block(&bytes, addr, opts)) {
            Some(Ok(b)) => b,
            Some(Err(e)) => {
                results.insert(addr, err_str(&e).replace(':', "-"));
                break;
            }
            None => {
                results.insert(addr, "panic".to_string());
                break;
            }
        };
        for s in b.successors().iter() {
            if !queue.contains(&s.0) {
                queue.push_back(s.0);
            }
        }
        results.insert(addr, btr_str(&b));
    }
    results.iter().map(|(a, b)| format!("(at 0x{:x} {})", a, b)).collect()
}

fn answer(line: &str) -> String {
    if line.starts_with("asm ") {
        return answer_asm(line);
    }
    let r = match parse(line) {
        Some(r) => r,
        None => return "bad-request".to_string(),
    };
    let a = match arch(&r.arch) {
        Some(a) => a,
        None => return "bad-request".to_string(),
    };
    let mem = code_memory(a.as_ref(), &r);
    let mut ob = OptionsBuilder::new();
    for (h, t) in &r.manual {
        ob = ob.add_manual_edge(ManualEdge::new(*h, *t, None));
    }
    let opts = ob.build();
    let function = match catch(|| a.translator().translate_function_extended(&mem, r.entry, &opts)) {
        None => return format!("panic@{}", last_panic()),
        Some(Err(e)) => return err_str(&e).to_string(),
        Some(Ok(f)) => f,
    };
    let fn_text = function_str(&function);

    // ---- run 1: falcon's executor over the lifted function
    let mut watch: Vec<String> = r.state.regs.iter().map(|(k, _)| k.clone()).collect();
    watch.sort();
    let (trace, post) = run_function(&a, &function, &r, &watch);

    // ---- run 2 (reference, also by falcon's executor): one native instruction at a time; collects the oracle
    let mut oracle: BTreeMap<u64, String> = BTreeMap::new();
    let mut pc = r.entry;
    let mut st = r.state.clone();
    for _ in 0..r.steps {
        let b = match single(a.as_ref(), &mem, pc) {
            Ok(b) => b,
            Err(e) => {
                oracle.insert(pc, e);
                break;
            }
        };
        oracle.entry(pc).or_insert_with(|| btr_str(&b));
        // extend the watched names by anything this instruction writes (temporaries are not compared)
        let _ = scalars_of(&b);
        let line = exec_btr(&a, &b, &st, &watch, 512);
        // parse `next=…` and the register/memory values back into a state
        match parse_post(&line, &st) {
            Some((Some(next), st2)) => {
                st = st2;
                pc = next;
            }
            _ => break,
        }
    }
    // the oracle also covers every native address that occurs in the recovered function (for the
    // "each instruction exactly once" clause)
    for b in function.blocks() {
        for i in b.instructions() {
            if let Some(ad) = i.address() {
                let native = if r.arch.starts_with("mips") { ad - ad % 4 } else { ad };
                if !oracle.contains_key(&native) {
                    let e = match single(a.as_ref(), &mem, native) {
                        Ok(b) => btr_str(&b),
                        Err(e) => e,
                    };
                    oracle.insert(native, e);
                }
            }
        }
    }
    let ora: Vec<String> = oracle.iter().map(|(a, b)| format!("(at 0x{:x} {})", a, b)).collect();
    let tr = worklist(a.as_ref(), &mem, &r, &opts);
    let mach = machine_trace(&r);
    format!(
        "fn {} | trace {} | post {} | oracle {} | tr {} | machine {}",
        fn_text,
        trace.iter().map(|a| format!("0x{:x}", a)).collect::<Vec<_>>().join(","),
        post,
        ora.join(" "),
        tr.join(" "),
        mach.iter().map(|a| format!("0x{:x}", a)).collect::<Vec<_>>().join(",")
    )
}

/// the independent reference machine (src/bin/c06/machine.rs) on the request's raw bytes and state
fn machine_trace(r: &Req) -> Vec<u64> {
    let reg = |n: &str| -> u64 {
        r.state.regs.iter().find(|(k, _)| k == n).and_then(|(_, v)| v.value_u64()).unwrap_or(0)
    };
    let mut mem = machine::Mem::from_regions(&r.state.mem);
    match r.arch.as_str() {
        "x86" | "amd64" => {
            let amd64 = r.arch == "amd64";
            let names: [&str; 8] = if amd64 {
                ["rax", "rcx", "rdx", "rbx", "rsp", "rbp", "rsi", "rdi"]
            } else {
                ["eax", "ecx", "edx", "ebx", "esp", "ebp", "esi", "edi"]
            };
            let mut regs = [0u64; 8];
            for (i, n) in names.iter().enumerate() {
                regs[i] = reg(n);
            }
            let flags = (reg("CF") == 1, reg("ZF") == 1, reg("SF") == 1, reg("OF") == 1);
            machine::x86_trace(&r.code, r.base, r.entry, regs, flags, &mut mem, amd64, r.steps)
        }
        "mips" | "mipsel" => {
            let mut regs = [0u32; 32];
            for (i, n) in MIPS_REGS.iter().enumerate() {
                regs[i] = reg(n) as u32;
            }
            machine::mips_trace(&r.code, r.base, r.entry, regs, &mut mem, r.arch == "mipsel", r.steps)
        }
        _ => Vec::new(),
    }
}

/// `next=0x…` + registers + memory of a post line, as the next machine state
fn parse_post(line: &str, prev: &MachState) -> Option<(Option<u64>, MachState)> {
    let f: Vec<&str> = line.split(" ; ").collect();
    if f.len() != 3 {
        return None;
    }
    let next = f[0].strip_prefix("next=")?;
    let next = if next.starts_with("0x") && !next.contains(',') {
        u64::from_str_radix(&next[2..], 16).ok()
    } else {
        None
    };
    let rest = format!("{} ; {} ; {}", if prev.endian == Endian::Little { "l" } else { "b" }, f[1], f[2]);
    let st = MachState::parse(&rest)?;
    Some((next, st))
}

fn run_function(a: &RC<dyn Architecture>, function: &il::Function, r: &Req, watch: &[String]) -> (Vec<u64>, String) {
    let entry = match function.control_flow_graph().entry() {
        Some(e) => e,
        None => return (vec![], "next=err:noentry ; ; ".to_string()),
    };
    let loc = {
        let b = function.block(entry).unwrap();
        if b.is_empty() {
            ProgramLocation::new(Some(0), FunctionLocation::EmptyBlock(entry))
        } else {
            ProgramLocation::new(Some(0), FunctionLocation::Instruction(entry, b.instructions()[0].index()))
        }
    };
    let mut program = Program::new();
    program.add_function(function.clone());
    let mut memory = Memory::new(r.state.endian.clone());
    for (ad, bytes) in &r.state.mem {
        for (i, b) in bytes.iter().enumerate() {
            memory.store(ad + i as u64, il::const_(*b as u64, 8)).unwrap();
        }
    }
    let mut state = State::new(memory);
    for (k, v) in &r.state.regs {
        state.set_scalar(k.clone(), v.clone());
    }
    let mut driver = Driver::new(RC::new(program), loc, state, a.clone());
    let mut trace: Vec<u64> = Vec::new();
    let mut head = String::new();
    let mips = r.arch.starts_with("mips");
    let mut guard = 0usize;
    loop {
        guard += 1;
        if guard > 40 * r.steps + 100 {
            head = "err:steps".to_string();
            break;
        }
        let mut stop: Option<String> = None;
        {
            let l = match driver.location().apply(driver.program()) {
                Ok(l) => l,
                Err(e) => {
                    head = err_str(&e).to_string();
                    break;
                }
            };
            if let RefFunctionLocation::Instruction(_, i) = l.function_location() {
                if let Some(ad) = i.address() {
                    // the MIPS lifter re-addresses the branch's own graph at A+1: not a native address
                    if !(mips && ad % 4 != 0) && trace.last() != Some(&ad) {
                        if trace.len() >= r.steps {
                            stop = Some(format!("0x{:x}", ad));
                        } else {
                            trace.push(ad);
                        }
                    }
                }
                if stop.is_none() {
                    if let Operation::Branch { target } = i.operation() {
                        stop = Some(match driver.state().symbolize_and_eval(target) {
                            Ok(c) => c.value_u64().map(|v| format!("0x{:x}", v)).unwrap_or("err:addrbits".to_string()),
                            Err(e) => err_str(&e).to_string(),
                        });
                    }
                }
            }
        }
        if let Some(s) = stop {
            head = s;
            break;
        }
        match catch(|| driver.clone().step()) {
            None => {
                head = "panic".to_string();
                break;
            }
            Some(Err(e)) => {
                head = err_str(&e).to_string();
                break;
            }
            Some(Ok(d)) => driver = d,
        }
    }
    let regs: Vec<String> = watch
        .iter()
        .map(|n| format!("{}={}", n, driver.state().get_scalar(n).map(const_str).unwrap_or("-".to_string())))
        .collect();
    let mut mems = Vec::new();
    for (a0, bytes) in &r.state.mem {
        let mut v = Vec::new();
        for i in 0..bytes.len() {
            match driver.state().memory().load(a0 + i as u64, 8) {
                Ok(Some(c)) => v.push(c.value_u64().unwrap_or(0) as u8),
                _ => v.push(0),
            }
        }
        mems.push(format!("0x{:x}:{}", a0, bytes_hex(&v)));
    }
    (trace, format!("next={} ; {} ; {}", head, regs.join(","), mems.join(",")))
}

// ------------------------------------------------------------------------------------------ generators

const MIPS_REGS: [&str; 32] = [
    "$zero", "$at", "$v0", "$v1", "$a0", "$a1", "$a2", "$a3", "$t0", "$t1", "$t2", "$t3", "$t4", "$t5", "$t6", "$t7",
    "$s0", "$s1", "$s2", "$s3", "$s4", "$s5", "$s6", "$s7", "$t8", "$t9", "$k0", "$k1", "$gp", "$sp", "$fp", "$ra",
];

/// a random MIPS program: `n` slots of one word; branches are followed by a non-branch delay slot
fn gen_mips(rng: &mut Rng, base: u64, n: usize) -> (Vec<u32>, String, Vec<usize>) {
    let mut w: Vec<u32> = Vec::with_capacity(n + 2);
    let work = [8u32, 9, 10, 11, 12]; // $t0..$t4
    let mut kinds = String::new();
    let mut targets: Vec<usize> = Vec::new();
    let mut slots: Vec<usize> = Vec::new();
    let plain = |rng: &mut Rng| -> u32 {
        let (a, b, c) = (*rng.pick(&work), *rng.pick(&work), *rng.pick(&work));
        match rng.below(5) {
            0 => 0x2400_0000 | (a << 21) | (b << 16) | (rng.below(16) as u32), // addiu
            1 => (a << 21) | (b << 16) | (c << 11) | 0x21,                      // addu
            2 => 0x8c00_0000 | (28 << 21) | (a << 16) | ((rng.below(16) * 4) as u32), // lw a, off($gp)
            3 => 0xac00_0000 | (28 << 21) | (a << 16) | ((rng.below(16) * 4) as u32), // sw
            _ => 0,                                                             // nop
        }
    };
    let mut i = 0;
    while i < n {
        if rng.chance(1, 4) && i + 1 < n {
            // branch to a random slot (word offset relative to the delay slot)
            let target = rng.below(n as u64 + 1) as i64;
            let off = (target - (i as i64 + 1)) as i16 as u16 as u32;
            let (a, b) = (*rng.pick(&work), *rng.pick(&work));
            let k = rng.below(8);
            let word = match k {
                0 => 0x1000_0000 | (a << 21) | (b << 16) | off, // beq
                1 => 0x1400_0000 | (a << 21) | (b << 16) | off, // bne
                2 => 0x1800_0000 | (a << 21) | off,             // blez
                3 => 0x1c00_0000 | (a << 21) | off,             // bgtz
                4 => 0x0400_0000 | (a << 21) | off,             // bltz
                5 => 0x0401_0000 | (a << 21) | off,             // bgez
                6 => 0x1000_0000 | off,                         // b
                _ => 0x0800_0000 | (((base + 4 * target as u64) >> 2) as u32 & 0x03ff_ffff), // j
            };
            kinds.push(['q', 'n', 'l', 'g', 't', 'e', 'b', 'j'][k as usize]);
            targets.push(target as usize);
            slots.push(i + 1);
            w.push(word);
            w.push(plain(rng));
            i += 2;
        } else {
            w.push(plain(rng));
            i += 1;
        }
    }
    w.push(0x03e0_0008); // jr $ra
    w.push(0);
    // a branch that targets another branch's delay slot makes the lifter share the slot instruction
    if targets.iter().any(|t| slots.contains(t)) {
        kinds.push('D');
    }
    (w, kinds, slots)
}

fn mips_state(rng: &mut Rng, endian_l: bool) -> MachState {
    let mut regs = Vec::new();
    for (i, r) in MIPS_REGS.iter().enumerate() {
        let v = match i {
            0 => 0,
            28 => 0x8000,
            29 => 0x9000,
            31 => 0x7000_0000,
            8..=12 => match rng.below(4) {
                0 => 0,
                1 => 1,
                2 => 0xffff_ffff,
                _ => rng.next() & 0xffff_ffff,
            },
            _ => rng.next() & 0xffff_ffff,
        };
        regs.push((r.to_string(), il::const_(v, 32)));
    }
    regs.push(("branching_condition".to_string(), il::const_(0, 1)));
    let bytes: Vec<u8> = (0..0x80).map(|_| rng.next() as u8).collect();
    MachState { endian: if endian_l { Endian::Little } else { Endian::Big }, regs, mem: vec![(0x8000, bytes)] }
}

#[derive(Clone)]
enum X {
    MovImm(u8, u32),
    AddRR(u8, u8),
    Inc(u8),
    CmpImm(u8, u8),
    Store(u8, u8), // mov [ebx+disp8], reg
    Load(u8, u8),  // mov reg, [ebx+disp8]
    Nop(usize),
    Jcc(u8, usize, bool), // cc, target index, long form
    Jmp(usize, bool),
    Ret,
}

fn x86_len(x: &X, amd64: bool) -> usize {
    match x {
        X::MovImm(..) => 5,
        X::AddRR(..) => 2,
        X::Inc(_) => if amd64 { 2 } else { 1 },
        X::CmpImm(..) => 3,
        X::Store(..) | X::Load(..) => 3,
        X::Nop(n) => *n,
        X::Jcc(_, _, long) => if *long { 6 } else { 2 },
        X::Jmp(_, long) => if *long { 5 } else { 2 },
        X::Ret => 1,
    }
}

fn x86_encode(prog: &[X], amd64: bool) -> (Vec<u8>, Vec<usize>) {
    let mut offs = vec![0usize];
    for x in prog {
        offs.push(offs.last().unwrap() + x86_len(x, amd64));
    }
    let mut out = Vec::new();
    for (i, x) in prog.iter().enumerate() {
        let next = offs[i + 1] as i64;
        match x {
            X::MovImm(r, v) => {
                out.push(0xb8 + r);
                out.extend_from_slice(&v.to_le_bytes());
            }
            X::AddRR(d, s) => out.extend_from_slice(&[0x01, 0xc0 | (s << 3) | d]),
            X::Inc(r) => {
                if amd64 {
                    out.extend_from_slice(&[0xff, 0xc0 | r])
                } else {
                    out.push(0x40 + r)
                }
            }
            X::CmpImm(r, v) => out.extend_from_slice(&[0x83, 0xf8 | r, *v]),
            X::Store(r, d) => out.extend_from_slice(&[0x89, 0x43 | (r << 3), *d]),
            X::Load(r, d) => out.extend_from_slice(&[0x8b, 0x43 | (r << 3), *d]),
            X::Nop(n) => out.extend_from_slice(match n {
                1 => &[0x90],
                2 => &[0x66, 0x90],
                3 => &[0x0f, 0x1f, 0x00],
                4 => &[0x0f, 0x1f, 0x40, 0x00],
                _ => &[0x0f, 0x1f, 0x44, 0x00, 0x00],
            }),
            X::Jcc(cc, t, long) => {
                let rel = offs[*t] as i64 - next;
                if *long {
                    out.extend_from_slice(&[0x0f, 0x80 | cc]);
                    out.extend_from_slice(&(rel as i32).to_le_bytes());
                } else {
                    out.extend_from_slice(&[0x70 | cc, rel as i8 as u8]);
                }
            }
            X::Jmp(t, long) => {
                let rel = offs[*t] as i64 - next;
                if *long {
                    out.push(0xe9);
                    out.extend_from_slice(&(rel as i32).to_le_bytes());
                } else {
                    out.extend_from_slice(&[0xeb, rel as i8 as u8]);
                }
            }
            X::Ret => out.push(0xc3),
        }
    }
    (out, offs)
}

/// `run`: start with a branch-free run of exactly that many bytes (so that an instruction boundary falls exactly on,
/// just before or just after the end of a 64-byte translation window); random programs alone never contain one,
/// their blocks are a few instructions long
fn gen_x86(rng: &mut Rng, n: usize, amd64: bool, run: Option<usize>) -> Vec<X> {
    let regs = [0u8, 1, 2, 6, 7]; // eax ecx edx esi edi
    let mut p = Vec::new();
    if let Some(want) = run {
        let mut len = 0usize;
        while len < want {
            let r = *rng.pick(&regs);
            let s = *rng.pick(&regs);
            let x = match rng.below(6) {
                0 => X::MovImm(r, rng.below(4) as u32),
                1 => X::AddRR(r, s),
                2 => X::Inc(r),
                3 => X::Store(r, (rng.below(16) * 4) as u8),
                4 => X::Load(r, (rng.below(16) * 4) as u8),
                _ => X::Nop(rng.range(1, 5) as usize),
            };
            let l = x86_len(&x, amd64);
            if len + l <= want {
                len += l;
                p.push(x);
            } else {
                let pad = want - len;
                p.push(X::Nop(pad.min(5)));
                len += pad.min(5);
            }
        }
    }
    let skip = p.len();
    for _ in 0..n {
        let r = *rng.pick(&regs);
        let s = *rng.pick(&regs);
        p.push(match rng.below(12) {
            0 => X::MovImm(r, rng.below(4) as u32),
            1 => X::AddRR(r, s),
            2 | 3 => X::Inc(r),
            4 => X::CmpImm(r, rng.below(4) as u8),
            5 => X::Store(r, (rng.below(16) * 4) as u8),
            6 => X::Load(r, (rng.below(16) * 4) as u8),
            7 => X::Nop(rng.range(1, 5) as usize),
            8 | 9 => X::Jcc(rng.below(16) as u8, rng.below((skip + n) as u64 + 1) as usize, rng.chance(1, 3)),
            10 => X::Jmp(rng.below((skip + n) as u64 + 1) as usize, rng.chance(1, 3)),
            _ => X::Nop(1),
        });
    }
    p.push(X::Ret);
    // short forms must reach their targets: switch to the long form where they do not
    for _ in 0..4 {
        let (_, offs) = x86_encode(&p, false);
        for i in 0..p.len() {
            let next = offs[i + 1] as i64;
            match &mut p[i] {
                X::Jcc(_, t, long) | X::Jmp(t, long) => {
                    let rel = offs[*t] as i64 - next;
                    if !(-120..=120).contains(&rel) {
                        *long = true;
                    }
                }
                _ => {}
            }
        }
    }
    p
}

fn x86_state(rng: &mut Rng, amd64: bool) -> MachState {
    let mut regs = Vec::new();
    let (names, bits): (&[&str], usize) = if amd64 {
        (&["rax", "rcx", "rdx", "rbx", "rsp", "rbp", "rsi", "rdi", "r8", "r9", "r10", "r11", "r12", "r13", "r14", "r15"], 64)
    } else {
        (&["eax", "ecx", "edx", "ebx", "esp", "ebp", "esi", "edi"], 32)
    };
    for n in names.iter() {
        let v = match *n {
            "rbx" | "ebx" => 0x8000,
            "rsp" | "esp" => 0x9000,
            _ => match rng.below(4) {
                0 => 0,
                1 => 1,
                2 => 0xffff_ffff,
                _ => rng.next() & 0xffff_ffff,
            },
        };
        regs.push((n.to_string(), il::const_(v, bits)));
    }
    for f in ["CF", "ZF", "SF", "OF", "DF", "PF", "AF"] {
        regs.push((f.to_string(), il::const_(if f == "DF" { 0 } else { rng.below(2) }, 1)));
    }
    let data: Vec<u8> = (0..0x80).map(|_| rng.next() as u8).collect();
    // a return address on the stack
    let stack: Vec<u8> = vec![0x00, 0x00, 0x00, 0x70, 0, 0, 0, 0, 0, 0, 0, 0, 0, 0, 0, 0];
    MachState { endian: Endian::Little, regs, mem: vec![(0x8000, data), (0x9000, stack)] }
}

fn generate(tier: Tier, rng: &mut Rng, em: &mut Emit) {
    let n_cases = if tier == Tier::Quick { 700 } else { 12_000 }; // per shard (8 shards)
    for case in 0..n_cases {
        let which = case % 4;
        let base = 0x1000u64 + if rng.chance(1, 3) { 4 * rng.below(16) } else { 0 };
        let steps = 60;
        match which {
            0 | 1 => {
                let le = which == 1;
                let arch = if le { "mipsel" } else { "mips" };
                let n = *rng.pick(&[3usize, 8, 14, 15, 16, 17, 30, 33, 40]);
                let (words, mut kinds, slots) = gen_mips(rng, base, n);
                let mut code = Vec::new();
                for w in &words {
                    code.extend_from_slice(&if le { w.to_le_bytes() } else { w.to_be_bytes() });
                }
                let st = mips_state(rng, le);
                let manual = if rng.chance(1, 4) {
                    let jr = base + 4 * (words.len() as u64 - 2);
                    let t = rng.below(n as u64) as usize;
                    if slots.contains(&t) && !kinds.contains('D') {
                        kinds.push('D'); // the manual edge makes a delay slot a block entry
                    }
                    format!("0x{:x}-0x{:x}", jr, base + 4 * t as u64)
                } else {
                    String::new()
                };
                let win = if words.len() > 16 { "multiwindow" } else { "onewindow" };
                let nb = kinds.chars().filter(|c| *c != 'D').count();
                let cls = format!(
                    "{}/{}/{}/{}/{}",
                    arch,
                    win,
                    if nb == 0 { "nobranch" } else if nb < 4 { "fewbranches" } else { "manybranches" },
                    if kinds.contains('D') { "target-in-delay-slot" } else { "plain-targets" },
                    if manual.is_empty() { "nomanual" } else { "manual" }
                );
                em.case(&cls, format!("fnrec {} 0x{:x} {} 0x{:x} m={} steps={} | {}", arch, base, bytes_hex(&code), base, manual, steps, st.to_string()));
            }
            _ => {
                let amd64 = which == 3;
                let arch = if amd64 { "amd64" } else { "x86" };
                let n = *rng.pick(&[3usize, 8, 16, 24, 30, 40]);
                let run = if rng.chance(1, 3) { Some(*rng.pick(&[59usize, 62, 63, 64, 64, 65, 66, 69, 127, 128, 128, 129])) } else { None };
                let prog = gen_x86(rng, n, amd64, run);
                let (code, offs) = x86_encode(&prog, amd64);
                let st = x86_state(rng, amd64);
                let has_long = prog.iter().any(|x| matches!(x, X::Jcc(_, _, true) | X::Jmp(_, true)));
                let has_back = prog.iter().enumerate().any(|(i, x)| match x {
                    X::Jcc(_, t, _) | X::Jmp(t, _) => *t <= i,
                    _ => false,
                });
                // does some instruction straddle a 64-byte window boundary (relative to the function start)?
                let straddle = offs.windows(2).any(|w| w[0] / 64 != (w[1] - 1) / 64);
                let win = if code.len() > 64 { "multiwindow" } else { "onewindow" };
                let cls = format!("{}/{}/{}{}{}{}", arch, win, if has_back { "back," } else { "" }, if has_long { "long," } else { "" },
                    match run { Some(r) if r % 64 == 0 => "run=window,", Some(_) => "run~window,", None => "" },
                    if straddle { "straddle" } else { "aligned" });
                em.case(&cls, format!("fnrec {} 0x{:x} {} 0x{:x} m= steps={} | {}", arch, base, bytes_hex(&code), base, steps, st.to_string()));
            }
        }
    }
    // the assembly algorithm alone, on synthetic translation results (after the programs, so that their stream is unchanged)
    let mut r2 = rng.fork();
    gen_asm(&mut r2, em, if tier == Tier::Quick { 1_500 } else { 5_000 });
}

fn main() {
    run_main(&generate, &answer);
}
