//! C20 — architecture descriptors agree with the lifters and the platform ABI.
//!
//! The property quantifies over a finite table, so the whole table is dumped and judged:
//!
//!   c20 table [FILE]     writes `lean/Generated/Arch.lean` (or FILE): for each of the seven architectures the
//!                        descriptor (`name`, `endian`, `word_size`, `stack_pointer`, every field of
//!                        `calling_convention()`) and what the translator emits on a REGISTER SWEEP, as Lean
//!                        literals.  The file is only rewritten when its text changes.
//!   c20 gen / answer     line protocol (see `fvh::cases`): request `<arch> <field>`, falcon's answer = the
//!                        value of that field computed from the live `/repo` build.
//!
//! Fields (the Lean driver `Drivers/C20.lean` prints the same text from `Generated.Arch` as "model" and the
//! ABI-required value from `FalconModel/Abi.lean` as "spec"):
//!   descriptor   endian word_size stack_pointer args preserved trashed stack_arg_offset stack_arg_len
//!                return_addr return_reg
//!   lifter       emitted fetch_endian store_bytes load_addr_bits store_addr_bits sweep_failed
//!   judgements   sp_emitted cc_not_emitted preserved_and_trashed sp_preserved
//!   queries      arg_types          argument_type(n) for n = 0 ..= (number of argument registers + 6):
//!                                   `reg:<name>:<bits>` | `stack:<offset>`
//!                stack_arg_offsets  the offsets of the stack answers among them, in order
//!                is_preserved       `<name>:<bits>=yes|no|none` (Some(true)/Some(false)/None) for every probe register
//!                is_trashed         the same for is_trashed
//!                probes = preserved ∪ trashed ∪ argument registers ∪ return register ∪ return-address register ∪
//!                stack pointer ∪ every scalar of the sweep ∪ the made-up register `c20_no_such_register`
//!                (in neither set by construction), sorted
//!
//! Register sweep (all encodings are lifted with the real translator, `translate_block`, unsupported
//! instructions are errors, and the scalars of the IL are collected with `fvh::lift::scalars_of`):
//!   x86     mov r,r for the 8 GPRs at 32/16/8 bits, movq/movdqa xmmN,xmmN (0..7), push/pop eax
//!   amd64   mov r,r for the 16 GPRs at 64/32/16/8 bits (REX forms incl. spl/bpl/sil/dil),
//!           movq/movdqa xmmN,xmmN (0..15), push/pop rax
//!   mips*   addu $r,$r,$r for all 32, mfhi/mflo/mthi/mtlo
//!   ppc     mr rN,rN and add rN,rN,rN for all 32, mflr/mtlr/mtctr, cmpwi crN,r3,0
//!   aarch64* mov xN,xN and mov wN,wN (0..30), add sp,sp,#0, ldr/str qN,[x0] (0..31)
//! Endianness: the IL's load/store carry no byte order, the memory object does, and the loaders build it from
//! `Architecture::endian()`.  So two things are observed: (a) `fetch_endian` — in which byte order the
//! translator decodes an instruction word (the store is encoded both ways; x86: the byte order of the
//! immediate), (b) `store_bytes` — the bytes a lifted 32-bit store of 0x11223344 leaves in an executor memory
//! built the way the loaders build it (`Memory::new(arch.endian())`), run with `fvh::lift::exec_btr`.
use falcon::analysis::calling_convention::{ArgumentType, CallingConvention, ReturnAddressType};
use falcon::architecture::{Architecture, Endian};
use falcon::il::{self, Operation};
use falcon::translator::BlockTranslationResult;
use falcon::RC;
use fvh::lift::{arch, bytes_hex, exec_btr, lift_block, options, scalars_of, MachState, ARCHS};
use fvh::{run_main, Emit, Rng, Tier};
use std::collections::BTreeSet;

type Reg = (String, usize);

const FIELDS: [&str; 24] = [
    "endian",
    "word_size",
    "stack_pointer",
    "args",
    "preserved",
    "trashed",
    "stack_arg_offset",
    "stack_arg_len",
    "return_addr",
    "return_reg",
    "emitted",
    "fetch_endian",
    "store_bytes",
    "load_addr_bits",
    "store_addr_bits",
    "sweep_failed",
    "sp_emitted",
    "cc_not_emitted",
    "preserved_and_trashed",
    "sp_preserved",
    "arg_types",
    "stack_arg_offsets",
    "is_preserved",
    "is_trashed",
];

// ------------------------------------------------------------------------------------------ encodings

fn word(w: u32, big: bool) -> Vec<u8> {
    if big {
        w.to_be_bytes().to_vec()
    } else {
        w.to_le_bytes().to_vec()
    }
}

/// (mnemonic for the report, bytes)
fn sweep(name: &str) -> Vec<(String, Vec<u8>)> {
    let mut v: Vec<(String, Vec<u8>)> = Vec::new();
    match name {
        "x86" => {
            for r in 0u8..8 {
                let modrm = 0xc0 | (r << 3) | r;
                v.push((format!("mov r32_{0},r32_{0}", r), vec![0x89, modrm]));
                v.push((format!("mov r16_{0},r16_{0}", r), vec![0x66, 0x89, modrm]));
                v.push((format!("mov r8_{0},r8_{0}", r), vec![0x88, modrm]));
                v.push((format!("movq xmm{0},xmm{0}", r), vec![0xf3, 0x0f, 0x7e, modrm]));
                v.push((format!("movdqa xmm{0},xmm{0}", r), vec![0x66, 0x0f, 0x6f, modrm]));
            }
            v.push(("push eax".into(), vec![0x50]));
            v.push(("pop eax".into(), vec![0x58]));
        }
        "amd64" => {
            for r in 0u8..16 {
                let hi = r >> 3;
                let modrm = 0xc0 | ((r & 7) << 3) | (r & 7);
                let rex = 0x40 | (hi << 2) | hi;
                v.push((format!("mov r64_{0},r64_{0}", r), vec![rex | 8, 0x89, modrm]));
                v.push((format!("mov r32_{0},r32_{0}", r), vec![rex, 0x89, modrm]));
                v.push((format!("mov r16_{0},r16_{0}", r), vec![0x66, rex, 0x89, modrm]));
                v.push((format!("mov r8_{0},r8_{0} (rex)", r), vec![rex, 0x88, modrm]));
                if r < 8 {
                    v.push((format!("mov r8_{0},r8_{0} (no rex)", r), vec![0x88, modrm]));
                }
                v.push((format!("movq xmm{0},xmm{0}", r), vec![0xf3, rex, 0x0f, 0x7e, modrm]));
                v.push((format!("movdqa xmm{0},xmm{0}", r), vec![0x66, rex, 0x0f, 0x6f, modrm]));
            }
            v.push(("push rax".into(), vec![0x50]));
            v.push(("pop rax".into(), vec![0x58]));
        }
        "mips" | "mipsel" => {
            let big = name == "mips";
            for r in 0u32..32 {
                v.push((format!("addu ${0},${0},${0}", r), word((r << 21) | (r << 16) | (r << 11) | 0x21, big)));
            }
            v.push(("mfhi $8".into(), word((8 << 11) | 0x10, big)));
            v.push(("mflo $8".into(), word((8 << 11) | 0x12, big)));
            v.push(("mthi $8".into(), word((8 << 21) | 0x11, big)));
            v.push(("mtlo $8".into(), word((8 << 21) | 0x13, big)));
        }
        "ppc" => {
            for r in 0u32..32 {
                v.push((format!("mr r{0},r{0}", r), word(0x7c00_0378 | (r << 21) | (r << 16) | (r << 11), true)));
                v.push((format!("add r{0},r{0},r{0}", r), word(0x7c00_0214 | (r << 21) | (r << 16) | (r << 11), true)));
            }
            v.push(("mflr r3".into(), word(0x7c08_02a6 | (3 << 21), true)));
            v.push(("mtlr r3".into(), word(0x7c08_03a6 | (3 << 21), true)));
            v.push(("mtctr r3".into(), word(0x7c09_03a6 | (3 << 21), true)));
            for c in 0u32..8 {
                v.push((format!("cmpwi cr{},r3,0", c), word(0x2c00_0000 | (c << 23) | (3 << 16), true)));
            }
        }
        "aarch64" | "aarch64eb" => {
            // A64 instruction words are little-endian in memory for both data endiannesses
            for r in 0u32..31 {
                v.push((format!("mov x{0},x{0}", r), word(0xaa00_03e0 | (r << 16) | r, false)));
                v.push((format!("mov w{0},w{0}", r), word(0x2a00_03e0 | (r << 16) | r, false)));
            }
            v.push(("add sp,sp,#0".into(), word(0x9100_03ff, false)));
            for r in 0u32..32 {
                v.push((format!("ldr q{},[x0]", r), word(0x3dc0_0000 | r, false)));
                v.push((format!("str q{},[x0]", r), word(0x3d80_0000 | r, false)));
            }
        }
        _ => {}
    }
    v
}

/// the 32-bit store of register B through register A, and the 32/word-bit load; (store, load, A, B, A bits, B bits)
struct MemProbe {
    store: u32,     // fixed-width ISAs: the instruction word
    store_x86: Vec<u8>,
    load: Vec<u8>,  // already in the ABI's fetch order
    addr_reg: &'static str,
    addr_bits: usize,
    val_reg: Option<(&'static str, usize)>,
}

fn probe(name: &str) -> MemProbe {
    match name {
        // mov dword [eax], 0x11223344 ; mov eax, [ebx]
        "x86" => MemProbe { store: 0, store_x86: vec![0xc7, 0x00], load: vec![0x8b, 0x03], addr_reg: "eax", addr_bits: 32, val_reg: None },
        // mov dword [rax], 0x11223344 ; mov rax, [rbx]
        "amd64" => MemProbe { store: 0, store_x86: vec![0xc7, 0x00], load: vec![0x48, 0x8b, 0x03], addr_reg: "rax", addr_bits: 64, val_reg: None },
        // sw $t1, 0($t0) ; lw $t1, 0($t0)
        "mips" => MemProbe { store: 0xad09_0000, store_x86: vec![], load: word(0x8d09_0000, true), addr_reg: "$t0", addr_bits: 32, val_reg: Some(("$t1", 32)) },
        "mipsel" => MemProbe { store: 0xad09_0000, store_x86: vec![], load: word(0x8d09_0000, false), addr_reg: "$t0", addr_bits: 32, val_reg: Some(("$t1", 32)) },
        // stw r4, 0(r3) ; lwz r4, 0(r3)
        "ppc" => MemProbe { store: 0x9083_0000, store_x86: vec![], load: word(0x8083_0000, true), addr_reg: "r3", addr_bits: 32, val_reg: Some(("r4", 32)) },
        // str w1, [x0] ; ldr x1, [x0]
        _ => MemProbe { store: 0xb900_0001, store_x86: vec![], load: word(0xf940_0001, false), addr_reg: "x0", addr_bits: 64, val_reg: Some(("x1", 64)) },
    }
}

// ------------------------------------------------------------------------------------------ observations

#[derive(Clone)]
struct Desc {
    name: String,
    endian: &'static str,
    word_size: usize,
    sp: Reg,
    args: Vec<Reg>,
    preserved: Vec<Reg>,
    trashed: Vec<Reg>,
    stack_arg_offset: usize,
    stack_arg_len: usize,
    return_addr: String, // "stack:<off>" | "reg:<name>:<bits>"
    return_reg: Reg,
    emitted: Vec<Reg>,
    fetch_endian: String,
    store_bytes: String,
    load_addr_bits: usize,
    store_addr_bits: usize,
    sweep_ok: usize,
    sweep_failed: Vec<String>,
    arg_types: Vec<ArgTy>,
    is_preserved: Vec<(Reg, Option<bool>)>,
    is_trashed: Vec<(Reg, Option<bool>)>,
}

#[derive(Clone, PartialEq)]
enum ArgTy {
    Reg(Reg),
    Stack(usize),
}

/// how many answers beyond the argument registers are swept (n = 0 ..= registers + EXTRA_ARGS)
const EXTRA_ARGS: usize = 6;
const NO_SUCH_REGISTER: &str = "c20_no_such_register";

fn reg_of(s: &il::Scalar) -> Reg {
    (s.name().to_string(), s.bits())
}

fn sorted(it: impl Iterator<Item = Reg>) -> Vec<Reg> {
    let s: BTreeSet<Reg> = it.collect();
    s.into_iter().collect()
}

fn endian_str(e: &Endian) -> &'static str {
    match e {
        Endian::Big => "big",
        Endian::Little => "little",
    }
}

/// width of the address expression of the first load / store of the block (0 = none found)
fn addr_bits(r: &BlockTranslationResult, want_store: bool) -> usize {
    for (_, g) in r.instructions() {
        for b in g.blocks() {
            for i in b.instructions() {
                match i.operation() {
                    Operation::Load { index, .. } if !want_store => return index.bits(),
                    Operation::Store { index, .. } if want_store => return index.bits(),
                    _ => {}
                }
            }
        }
    }
    0
}

/// lifts `bytes` and runs the block on a memory built from the descriptor's endianness, `addr_reg = 0x1000`,
/// `val_reg = 0x11223344`, four zero bytes at 0x1000; returns the four bytes afterwards (hex) if a store happened
fn run_store(a: &RC<dyn Architecture>, p: &MemProbe, bytes: &[u8]) -> Option<(String, usize)> {
    let r = lift_block(a.as_ref(), bytes, 0x400000, &options(false)).ok()?;
    let bits = addr_bits(&r, true);
    if bits == 0 {
        return None;
    }
    let mut regs = vec![(p.addr_reg.to_string(), il::const_(0x1000, p.addr_bits))];
    if let Some((n, b)) = p.val_reg {
        regs.push((n.to_string(), il::const_(0x11223344, b)));
    }
    let st = MachState { endian: a.endian(), regs, mem: vec![(0x1000, vec![0, 0, 0, 0])] };
    let post = exec_btr(a, &r, &st, &[], 64);
    // post := next=… ; regs ; 0x1000:hexbytes
    let f: Vec<&str> = post.split(';').map(|x| x.trim()).collect();
    if f.len() != 3 || !f[0].starts_with("next=0x") {
        return None;
    }
    let bytes = f[2].strip_prefix("0x1000:")?.to_string();
    if bytes == "00000000" {
        return None;
    }
    Some((bytes, bits))
}

fn observe(name: &str) -> Desc {
    let a = arch(name).expect("architecture");
    let cc: CallingConvention = a.calling_convention();
    let return_addr = match cc.return_address_type() {
        ReturnAddressType::Stack(o) => format!("stack:{}", o),
        ReturnAddressType::Register(s) => format!("reg:{}:{}", s.name(), s.bits()),
    };
    // register sweep
    let mut emitted: BTreeSet<Reg> = BTreeSet::new();
    let mut failed = Vec::new();
    let mut ok = 0;
    for (mn, bytes) in sweep(name) {
        match lift_block(a.as_ref(), &bytes, 0x400000, &options(false)) {
            Ok(r) => {
                ok += 1;
                for (n, b) in scalars_of(&r) {
                    emitted.insert((n, b));
                }
            }
            Err(e) => failed.push(format!("{}={}:{}", mn.replace(' ', "_"), bytes_hex(&bytes), e.replace(' ', "_"))),
        }
    }
    // endianness and address widths
    let p = probe(name);
    let mut fetch = Vec::new();
    let mut store_bytes = String::new();
    let mut store_addr_bits = 0;
    if p.store_x86.is_empty() {
        for big in [false, true] {
            if let Some((b, bits)) = run_store(&a, &p, &word(p.store, big)) {
                fetch.push(if big { "big" } else { "little" });
                store_bytes = b;
                store_addr_bits = bits;
            }
        }
    } else {
        // the immediate 0x11223344 in either byte order: the one that stores 0x11223344 is the fetch order
        for big in [false, true] {
            let mut bytes = p.store_x86.clone();
            bytes.extend(word(0x11223344, big));
            if let Some((b, bits)) = run_store(&a, &p, &bytes) {
                store_addr_bits = bits;
                if b == "44332211" || b == "11223344" {
                    // stored value is 0x11223344 (in the memory's byte order) iff the immediate was decoded in this order
                    let le_mem = a.endian() == Endian::Little;
                    if (b == "44332211") == le_mem {
                        fetch.push(if big { "big" } else { "little" });
                        store_bytes = b;
                    }
                }
            }
        }
    }
    let fetch_endian = match fetch.len() {
        0 => "none".to_string(),
        1 => fetch[0].to_string(),
        _ => "both".to_string(),
    };
    let load_addr_bits = lift_block(a.as_ref(), &p.load, 0x400000, &options(false)).map(|r| addr_bits(&r, false)).unwrap_or(0);
    // the queries: argument_type(n), is_preserved(r), is_trashed(r)
    let arg_types: Vec<ArgTy> = (0..=cc.argument_registers().len() + EXTRA_ARGS)
        .map(|n| match cc.argument_type(n) {
            ArgumentType::Register(s) => ArgTy::Reg(reg_of(&s)),
            ArgumentType::Stack(o) => ArgTy::Stack(o),
        })
        .collect();
    let mut probes: BTreeSet<Reg> = BTreeSet::new();
    probes.extend(cc.preserved_registers().iter().map(reg_of));
    probes.extend(cc.trashed_registers().iter().map(reg_of));
    probes.extend(cc.argument_registers().iter().map(reg_of));
    probes.insert(reg_of(cc.return_register()));
    if let ReturnAddressType::Register(s) = cc.return_address_type() {
        probes.insert(reg_of(s));
    }
    probes.insert(reg_of(&a.stack_pointer()));
    probes.extend(emitted.iter().cloned());
    probes.insert((NO_SUCH_REGISTER.to_string(), a.word_size()));
    let is_preserved: Vec<(Reg, Option<bool>)> =
        probes.iter().map(|r| (r.clone(), cc.is_preserved(&il::scalar(r.0.clone(), r.1)))).collect();
    let is_trashed: Vec<(Reg, Option<bool>)> =
        probes.iter().map(|r| (r.clone(), cc.is_trashed(&il::scalar(r.0.clone(), r.1)))).collect();
    Desc {
        arg_types,
        is_preserved,
        is_trashed,
        name: a.name().to_string(),
        endian: endian_str(&a.endian()),
        word_size: a.word_size(),
        sp: reg_of(&a.stack_pointer()),
        args: cc.argument_registers().iter().map(reg_of).collect(),
        preserved: sorted(cc.preserved_registers().iter().map(reg_of)),
        trashed: sorted(cc.trashed_registers().iter().map(reg_of)),
        stack_arg_offset: cc.stack_argument_offset(),
        stack_arg_len: cc.stack_argument_length(),
        return_addr,
        return_reg: reg_of(cc.return_register()),
        emitted: emitted.into_iter().collect(),
        fetch_endian,
        store_bytes: if store_bytes.is_empty() { "none".to_string() } else { store_bytes },
        load_addr_bits,
        store_addr_bits,
        sweep_ok: ok,
        sweep_failed: failed,
    }
}

// ------------------------------------------------------------------------------------------ canonical text

fn reg_str(r: &Reg) -> String {
    format!("{}:{}", r.0, r.1)
}

fn regs_str(v: &[Reg]) -> String {
    if v.is_empty() {
        "none".to_string()
    } else {
        v.iter().map(reg_str).collect::<Vec<_>>().join(" ")
    }
}

fn arg_ty_str(t: &ArgTy) -> String {
    match t {
        ArgTy::Reg(r) => format!("reg:{}", reg_str(r)),
        ArgTy::Stack(o) => format!("stack:{}", o),
    }
}

fn tri(o: &Option<bool>) -> &'static str {
    match o {
        Some(true) => "yes",
        Some(false) => "no",
        None => "none",
    }
}

fn answers_str(v: &[(Reg, Option<bool>)]) -> String {
    if v.is_empty() {
        "none".to_string()
    } else {
        v.iter().map(|(r, o)| format!("{}={}", reg_str(r), tri(o))).collect::<Vec<_>>().join(" ")
    }
}

fn yes(b: bool) -> String {
    if b { "yes" } else { "no" }.to_string()
}

/// every register the convention names: arguments, preserved, trashed, return-address register, return register
fn cc_regs(d: &Desc) -> Vec<Reg> {
    let mut v: Vec<Reg> = Vec::new();
    v.extend(d.args.iter().cloned());
    v.extend(d.preserved.iter().cloned());
    v.extend(d.trashed.iter().cloned());
    if let Some(rest) = d.return_addr.strip_prefix("reg:") {
        if let Some((n, b)) = rest.rsplit_once(':') {
            v.push((n.to_string(), b.parse().unwrap_or(0)));
        }
    }
    v.push(d.return_reg.clone());
    v
}

fn field(d: &Desc, f: &str) -> String {
    match f {
        "endian" => d.endian.to_string(),
        "word_size" => d.word_size.to_string(),
        "stack_pointer" => reg_str(&d.sp),
        "args" => regs_str(&d.args),
        "preserved" => regs_str(&d.preserved),
        "trashed" => regs_str(&d.trashed),
        "stack_arg_offset" => d.stack_arg_offset.to_string(),
        "stack_arg_len" => d.stack_arg_len.to_string(),
        "return_addr" => d.return_addr.clone(),
        "return_reg" => reg_str(&d.return_reg),
        "emitted" => regs_str(&d.emitted),
        "fetch_endian" => d.fetch_endian.clone(),
        "store_bytes" => d.store_bytes.clone(),
        "load_addr_bits" => d.load_addr_bits.to_string(),
        "store_addr_bits" => d.store_addr_bits.to_string(),
        "sweep_failed" => {
            if d.sweep_failed.is_empty() {
                "none".to_string()
            } else {
                d.sweep_failed.join(" ")
            }
        }
        "sp_emitted" => yes(d.emitted.contains(&d.sp)),
        "cc_not_emitted" => {
            // in the order the convention names them, duplicates removed
            let mut out: Vec<Reg> = Vec::new();
            for r in cc_regs(d) {
                if !d.emitted.contains(&r) && !out.contains(&r) {
                    out.push(r);
                }
            }
            regs_str(&out)
        }
        "preserved_and_trashed" => {
            // by NAME: a register is one thing, whatever width the table gives it
            let mut out: Vec<String> = Vec::new();
            for p in &d.preserved {
                if d.trashed.iter().any(|t| t.0 == p.0) && !out.contains(&p.0) {
                    out.push(p.0.clone());
                }
            }
            if out.is_empty() {
                "none".to_string()
            } else {
                out.join(" ")
            }
        }
        "sp_preserved" => yes(d.preserved.contains(&d.sp)),
        "arg_types" => d.arg_types.iter().map(arg_ty_str).collect::<Vec<_>>().join(" "),
        "stack_arg_offsets" => {
            let v: Vec<String> = d
                .arg_types
                .iter()
                .filter_map(|t| if let ArgTy::Stack(o) = t { Some(o.to_string()) } else { None })
                .collect();
            if v.is_empty() {
                "none".to_string()
            } else {
                v.join(" ")
            }
        }
        "is_preserved" => answers_str(&d.is_preserved),
        "is_trashed" => answers_str(&d.is_trashed),
        _ => "bad-request".to_string(),
    }
}

fn answer(line: &str) -> String {
    let f: Vec<&str> = line.split(' ').collect();
    if f.len() != 2 || !ARCHS.contains(&f[0]) || !FIELDS.contains(&f[1]) {
        return "bad-request".to_string();
    }
    field(&observed(f[0]), f[1])
}

/// one sweep per architecture and process (the answers do not depend on the request order)
fn observed(name: &str) -> Desc {
    use std::collections::HashMap;
    use std::sync::{Mutex, OnceLock};
    static CACHE: OnceLock<Mutex<HashMap<String, Desc>>> = OnceLock::new();
    let m = CACHE.get_or_init(|| Mutex::new(HashMap::new()));
    if let Some(d) = m.lock().unwrap().get(name) {
        return d.clone();
    }
    let d = observe(name);
    m.lock().unwrap().insert(name.to_string(), d.clone());
    d
}

fn generate(_tier: Tier, _rng: &mut Rng, emit: &mut Emit) {
    // a finite table: every (architecture, field) once, in both tiers
    for a in ARCHS {
        for f in FIELDS {
            emit.case(&format!("{}/{}", a, f), format!("{} {}", a, f));
        }
    }
}

// ------------------------------------------------------------------------------------------ Lean table

fn lean_str(s: &str) -> String {
    format!("\"{}\"", s.replace('\\', "\\\\").replace('"', "\\\""))
}

fn lean_reg(r: &Reg) -> String {
    format!("({}, {})", lean_str(&r.0), r.1)
}

fn lean_regs(v: &[Reg]) -> String {
    let mut out = String::from("[");
    for (i, r) in v.iter().enumerate() {
        if i > 0 {
            out.push_str(if i % 6 == 0 { ",\n      " } else { ", " });
        }
        out.push_str(&lean_reg(r));
    }
    out.push(']');
    out
}

fn lean_answers(v: &[(Reg, Option<bool>)]) -> String {
    let mut out = String::from("[");
    for (i, (r, o)) in v.iter().enumerate() {
        if i > 0 {
            out.push_str(if i % 4 == 0 { ",\n      " } else { ", " });
        }
        let o = match o {
            Some(true) => "some true",
            Some(false) => "some false",
            None => "none",
        };
        out.push_str(&format!("({}, {})", lean_reg(r), o));
    }
    out.push(']');
    out
}

fn lean_ident(name: &str) -> String {
    name.to_string()
}

fn lean_table() -> String {
    let mut s = String::new();
    s.push_str("/-\n  Generated.Arch — REGENERATED on every run by `harness/target/release/c20 table` from the current /repo\n");
    s.push_str("  build (props/c20.py `pre_build`); git-ignored; literals only.  For each architecture: what falcon's\n");
    s.push_str("  descriptor and default calling convention say, and what its translator emitted on the register sweep.\n-/\n");
    s.push_str("import FalconModel.Abi\n\nnamespace Falcon.Generated.Arch\nopen Falcon.Abi\n\n");
    for a in ARCHS {
        let d = observe(a);
        let ra = if let Some(off) = d.return_addr.strip_prefix("stack:") {
            format!(".stack {}", off)
        } else {
            let rest = d.return_addr.strip_prefix("reg:").unwrap_or("");
            let (n, b) = rest.rsplit_once(':').unwrap_or(("", "0"));
            format!(".reg ({}, {})", lean_str(n), b)
        };
        s.push_str(&format!("/-- `{}`: {} sweep encodings lifted, {} rejected -/\n", d.name, d.sweep_ok, d.sweep_failed.len()));
        s.push_str(&format!("def {} : ArchDesc where\n", lean_ident(a)));
        s.push_str(&format!("  name := {}\n", lean_str(&d.name)));
        s.push_str(&format!("  endian := {}\n", lean_str(d.endian)));
        s.push_str(&format!("  wordSize := {}\n", d.word_size));
        s.push_str(&format!("  sp := {}\n", lean_reg(&d.sp)));
        s.push_str(&format!("  args := {}\n", lean_regs(&d.args)));
        s.push_str(&format!("  preserved := {}\n", lean_regs(&d.preserved)));
        s.push_str(&format!("  trashed := {}\n", lean_regs(&d.trashed)));
        s.push_str(&format!("  stackArgOffset := {}\n", d.stack_arg_offset));
        s.push_str(&format!("  stackArgLen := {}\n", d.stack_arg_len));
        s.push_str(&format!("  retAddr := {}\n", ra));
        s.push_str(&format!("  retReg := {}\n", lean_reg(&d.return_reg)));
        s.push_str(&format!("  emitted := {}\n", lean_regs(&d.emitted)));
        s.push_str(&format!("  fetchEndian := {}\n", lean_str(&d.fetch_endian)));
        s.push_str(&format!("  storeBytes := {}\n", lean_str(&d.store_bytes)));
        s.push_str(&format!("  loadAddrBits := {}\n", d.load_addr_bits));
        s.push_str(&format!("  storeAddrBits := {}\n", d.store_addr_bits));
        s.push_str(&format!(
            "  argTypes := [{}]\n",
            d.arg_types
                .iter()
                .map(|t| match t {
                    ArgTy::Reg(r) => format!(".reg {}", lean_reg(r)),
                    ArgTy::Stack(o) => format!(".stack {}", o),
                })
                .collect::<Vec<_>>()
                .join(", ")
        ));
        s.push_str(&format!("  isPreserved := {}\n", lean_answers(&d.is_preserved)));
        s.push_str(&format!("  isTrashed := {}\n", lean_answers(&d.is_trashed)));
        s.push_str(&format!(
            "  sweepFailed := [{}]\n\n",
            d.sweep_failed.iter().map(|x| lean_str(x)).collect::<Vec<_>>().join(", ")
        ));
    }
    s.push_str(&format!("def all : List ArchDesc := [{}]\n\nend Falcon.Generated.Arch\n", ARCHS.join(", ")));
    s
}

fn main() {
    let args: Vec<String> = std::env::args().collect();
    if args.get(1).map(|s| s.as_str()) == Some("table") {
        fvh::canon::quiet_panics();
        let text = lean_table();
        match args.get(2) {
            Some(path) if path != "-" => {
                let old = std::fs::read_to_string(path).unwrap_or_default();
                if old != text {
                    if let Some(dir) = std::path::Path::new(path).parent() {
                        std::fs::create_dir_all(dir).expect("create directory of the table");
                    }
                    std::fs::write(path, text).expect("write the table");
                    eprintln!("c20 table: {} rewritten", path);
                } else {
                    eprintln!("c20 table: {} unchanged", path);
                }
            }
            _ => print!("{}", text),
        }
        return;
    }
    run_main(&generate, &answer);
}
