//! C09 — the fixed-point engine returns the least solution of the data-flow equations.
//! Requests are documented in lean/Drivers/C09.lean.
use falcon::analysis::fixed_point::{
    fixed_point_backward_options, fixed_point_forward_options, FixedPointAnalysis,
};
use falcon::il::{Function, FunctionLocation, Instruction, RefFunctionLocation, RefProgramLocation};
use falcon::Error;
use fvh::fil::{function_str, read_function};
use fvh::genil::{gen_function, GenCfg};
use fvh::sx::{parse_all, Sx};
use fvh::{run_main, Emit, Rng, Tier};
use std::cell::RefCell;
use std::cmp::Ordering;
use std::collections::HashMap;

#[derive(Clone, Debug, PartialEq)]
struct St {
    v: u64,
    cmp: u8,
}

impl PartialOrd for St {
    fn partial_cmp(&self, o: &St) -> Option<Ordering> {
        let (a, b) = (self.v, o.v);
        match self.cmp {
            b's' => {
                if a == b {
                    Some(Ordering::Equal)
                } else if a & b == a {
                    Some(Ordering::Less)
                } else if a & b == b {
                    Some(Ordering::Greater)
                } else {
                    None
                }
            }
            b'n' => Some(a.cmp(&b)),
            b'z' => None,
            _ => Some(Ordering::Greater),
        }
    }
}

#[derive(Clone, Debug)]
enum JoinK {
    U,
    I,
    X,
    M,
    E,
    C(u64),
}

type Table = Vec<Option<u64>>;

struct Tab {
    join: JoinK,
    cmp: u8,
    dflt: Table,
    ats: HashMap<FunctionLocation, Table>,
    /// number of `trans` calls per location (generator only: the non-triviality flag)
    calls: RefCell<HashMap<FunctionLocation, u32>>,
}

impl<'f, 'a> FixedPointAnalysis<'f, St> for &'a Tab {
    fn trans(&self, location: RefProgramLocation<'f>, state: Option<St>) -> Result<St, Error> {
        let o: FunctionLocation = location.function_location().clone().into();
        *self.calls.borrow_mut().entry(o.clone()).or_insert(0) += 1;
        let t = self.ats.get(&o).unwrap_or(&self.dflt);
        let idx = match state {
            None => 0,
            Some(s) => s.v as usize + 1,
        };
        match t.get(idx) {
            Some(Some(v)) => Ok(St { v: *v, cmp: self.cmp }),
            _ => Err(Error::Custom("trans".to_string())),
        }
    }

    fn join(&self, s0: St, s1: &St) -> Result<St, Error> {
        let v = match self.join {
            JoinK::U => s0.v | s1.v,
            JoinK::I => s0.v & s1.v,
            JoinK::X => s0.v ^ s1.v,
            JoinK::M => s0.v.max(s1.v),
            JoinK::E => return Err(Error::Custom("join".to_string())),
            JoinK::C(n) => n,
        };
        Ok(St { v, cmp: self.cmp })
    }
}

fn oloc_str(o: &FunctionLocation) -> String {
    match o {
        FunctionLocation::Instruction(b, i) => format!("I{}:{}", b, i),
        FunctionLocation::Edge(h, t) => format!("E{}-{}", h, t),
        FunctionLocation::EmptyBlock(b) => format!("B{}", b),
    }
}

fn oloc_key(o: &FunctionLocation) -> (u64, u64, u64, u64) {
    match o {
        FunctionLocation::Instruction(b, i) => (0, *b as u64, *i as u64, 0),
        FunctionLocation::Edge(h, t) => (1, *h as u64, *t as u64, 0),
        FunctionLocation::EmptyBlock(b) => (2, *b as u64, 0, 0),
    }
}

fn floc_str(l: &RefFunctionLocation) -> String {
    match l {
        RefFunctionLocation::Instruction(b, i) => {
            let a = i.address().map(|a| format!("0x{:x}", a)).unwrap_or_else(|| "-".to_string());
            format!("I{}:{}:{}", b.index(), i.index(), a)
        }
        RefFunctionLocation::Edge(e) => format!("E{}-{}", e.head(), e.tail()),
        RefFunctionLocation::EmptyBlock(b) => format!("B{}", b.index()),
    }
}

fn floc_key(l: &RefFunctionLocation) -> (u64, u64, u64, u64) {
    match l {
        RefFunctionLocation::Instruction(b, i) => {
            (0, b.index() as u64, i.index() as u64, i.address().map(|a| a + 1).unwrap_or(0))
        }
        RefFunctionLocation::Edge(e) => (1, e.head() as u64, e.tail() as u64, 0),
        RefFunctionLocation::EmptyBlock(b) => (2, b.index() as u64, 0, 0),
    }
}

fn fp_err_str(e: &Error) -> String {
    match e {
        Error::FixedPointMaxSteps => "err:maxsteps".to_string(),
        Error::FixedPointOrdering(s, l) => format!(
            "err:ordering:{}@{}",
            if s == "less" { "less" } else { "norel" },
            oloc_str(l.function_location())
        ),
        Error::FixedPointRequiresEntry | Error::FixedPointRequiresExit => "err:noroot".to_string(),
        _ => "err:other".to_string(),
    }
}

struct Req {
    fwd: bool,
    force: bool,
    max: usize,
    f: Function,
    tab: Tab,
}

fn read_entry(x: &Sx) -> Option<Option<u64>> {
    match x.atom()? {
        "err" => Some(None),
        _ => Some(Some(x.u64()?)),
    }
}

fn read_oloc(x: &Sx) -> Option<FunctionLocation> {
    let xs = x.list()?;
    match (xs.first()?.atom()?, &xs[1..]) {
        ("i", [b, k]) => Some(FunctionLocation::Instruction(b.usize()?, k.usize()?)),
        ("e", [h, t]) => Some(FunctionLocation::Edge(h.usize()?, t.usize()?)),
        ("b", [b]) => Some(FunctionLocation::EmptyBlock(b.usize()?)),
        _ => None,
    }
}

fn read_req(line: &str) -> Option<Req> {
    let xs = parse_all(line)?;
    if xs.len() < 9 || xs[0].atom()? != "fp" {
        return None;
    }
    let fwd = match xs[1].atom()? {
        "f" => true,
        "b" => false,
        _ => return None,
    };
    let force = match xs[2].atom()? {
        "0" => false,
        "1" => true,
        _ => return None,
    };
    let max = xs[3].usize().unwrap_or(0);
    let j = xs[4].atom()?;
    let join = match j {
        "u" => JoinK::U,
        "i" => JoinK::I,
        "x" => JoinK::X,
        "m" => JoinK::M,
        "e" => JoinK::E,
        _ => JoinK::C(j.strip_prefix('c')?.parse().ok()?),
    };
    let cmp = match xs[5].atom()? {
        "s" => b's',
        "n" => b'n',
        "z" => b'z',
        "g" => b'g',
        _ => return None,
    };
    let _k = xs[6].usize()?;
    let f = read_function(&xs[7])?;
    let d = xs[8].list()?;
    if d.first()?.atom()? != "def" {
        return None;
    }
    let dflt: Table = d[1..].iter().map(read_entry).collect::<Option<Vec<_>>>()?;
    let mut ats = HashMap::new();
    for a in &xs[9..] {
        let l = a.list()?;
        if l.first()?.atom()? != "at" {
            return None;
        }
        let o = read_oloc(&l[1])?;
        let t: Table = l[2..].iter().map(read_entry).collect::<Option<Vec<_>>>()?;
        // the first `at` of a location wins (the Lean side uses `find?`)
        ats.entry(o).or_insert(t);
    }
    Some(Req { fwd, force, max, f, tab: Tab { join, cmp, dflt, ats, calls: RefCell::new(HashMap::new()) } })
}

fn run(r: &Req) -> String {
    if r.fwd {
        match fixed_point_forward_options(&r.tab, &r.f, r.force, r.max) {
            Ok(m) => {
                let mut v: Vec<(&FunctionLocation, u64)> =
                    m.iter().map(|(k, s)| (k.function_location(), s.v)).collect();
                v.sort_by_key(|(k, _)| oloc_key(k));
                let mut parts = vec!["ok".to_string()];
                parts.extend(v.iter().map(|(k, s)| format!("{}={}", oloc_str(k), s)));
                parts.join(" ")
            }
            Err(e) => fp_err_str(&e),
        }
    } else {
        match fixed_point_backward_options(&r.tab, &r.f, r.force) {
            Ok(m) => {
                let mut v: Vec<(&RefFunctionLocation, u64)> =
                    m.iter().map(|(k, s)| (k.function_location(), s.v)).collect();
                v.sort_by_key(|(k, _)| floc_key(k));
                let mut parts = vec!["ok".to_string()];
                parts.extend(v.iter().map(|(k, s)| format!("{}={}", floc_str(k), s)));
                parts.join(" ")
            }
            Err(e) => fp_err_str(&e),
        }
    }
}

fn answer(line: &str) -> String {
    match read_req(line) {
        Some(r) => run(&r),
        None => "bad-request".to_string(),
    }
}

// ------------------------------------------------------------------------------------------------
// generator

fn gen_fn(rng: &mut Rng, ill: bool) -> Function {
    let g = GenCfg {
        names: vec![("a".into(), 32), ("f".into(), 1)],
        max_blocks: *rng.pick(&[1, 2, 3, 4, 6, 8]),
        max_instrs: *rng.pick(&[1, 2, 3]),
        expr_depth: 0,
        mem: false,
        branch: false,
        intrinsic: false,
        partition_guards: false,
        self_loops: true,
        unreachable: rng.chance(1, 2),
        empty_blocks: rng.chance(3, 4),
        addr_bits: 32,
        addresses: true,
        entry_in_loop: true,
        allow_div: false,
        index_gaps: true,
        rejected_edges: true,
    };
    let f = gen_function(rng, &g);
    let mut cfg = f.control_flow_graph().clone();
    if rng.chance(1, 6) {
        let before = cfg.clone();
        if cfg.merge().is_err()
            || cfg.exit().map(|x| cfg.block(x).is_err()).unwrap_or(false)
            || cfg.entry().map(|x| cfg.block(x).is_err()).unwrap_or(false)
        {
            cfg = before;
        }
    }
    if rng.chance(1, 3) {
        // any block may be the exit (not only one without successors)
        let idxs: Vec<usize> = cfg.blocks().iter().map(|b| b.index()).collect();
        let _ = cfg.set_exit(*rng.pick(&idxs));
    }
    if ill {
        let mut blocks = cfg.blocks_mut();
        let k = rng.below(blocks.len() as u64) as usize;
        let b = &mut blocks[k];
        let idxs: Vec<usize> = b.instructions().iter().map(|i| i.index()).collect();
        if !idxs.is_empty() {
            let dup = *rng.pick(&idxs);
            let mut ins = Instruction::nop(dup);
            ins.set_address(Some(0x9000 + rng.below(1 << 20)));
            let pos = rng.below(idxs.len() as u64 + 1) as usize;
            b.instructions_mut().insert(pos, ins);
        }
    }
    Function::new(f.address(), cfg)
}

fn shape_flags(f: &Function) -> String {
    let cfg = f.control_flow_graph();
    let mut t = String::new();
    let cyc = cfg.entry().map(|e| !cfg.graph().is_acyclic(e)).unwrap_or(false);
    if cyc {
        t.push('c');
    }
    if cfg.blocks().iter().any(|b| b.is_empty()) {
        t.push('e');
    }
    if let Some(e) = cfg.entry() {
        if let Ok(r) = cfg.graph().reachable_vertices(e) {
            if r.len() < cfg.blocks().len() {
                t.push('u');
            }
        }
        if cfg.edges_in(e).map(|v| !v.is_empty()).unwrap_or(false) {
            t.push('l'); // the entry block has predecessors
        }
    }
    t
}

fn mono_gk_table(rng: &mut Rng, k: u32) -> Table {
    let n = 1u64 << k;
    let gen = rng.below(n);
    let kill = rng.below(n);
    let none = if rng.chance(2, 3) { gen } else { gen & rng.below(n) };
    let mut t = vec![Some(none)];
    for s in 0..n {
        t.push(Some((s & !kill) | gen));
    }
    t
}

fn mono_num_table(rng: &mut Rng, k: u32) -> Table {
    let n = 1u64 << k;
    let mut v: Vec<u64> = (0..n + 1).map(|_| rng.below(n)).collect();
    v.sort();
    v.into_iter().map(Some).collect()
}

fn arb_table(rng: &mut Rng, k: u32, errs: bool) -> Table {
    let n = 1u64 << k;
    // mostly "almost monotone": a gen/kill table with a few entries replaced
    let mut t = if rng.chance(1, 2) { mono_gk_table(rng, k) } else { (0..n + 1).map(|_| Some(rng.below(n))).collect() };
    let m = rng.below(3);
    for _ in 0..m {
        let i = rng.below(n + 1) as usize;
        t[i] = if errs && rng.chance(1, 4) { None } else { Some(rng.below(n)) };
    }
    t
}

fn table_str(t: &Table) -> String {
    t.iter().map(|e| e.map(|v| v.to_string()).unwrap_or_else(|| "err".to_string())).collect::<Vec<_>>().join(" ")
}

fn generate(tier: Tier, rng: &mut Rng, em: &mut Emit) {
    let n = match tier {
        Tier::Quick => 10_000,
        Tier::Thorough => 125_000,
    };
    for i in 0..n {
        let ill = i % 16 == 15;
        let f = gen_fn(rng, ill);
        let k: u32 = *rng.pick(&[2, 2, 3, 3, 3, 4]);
        let fam = match rng.below(100) {
            0..=39 => "monogk",
            40..=49 => "mononum",
            50..=84 => "arb",
            _ => "malformed",
        };
        let fwd = rng.chance(3, 5);
        let force = rng.chance(1, 4);
        let (join, cmp): (String, &str) = match fam {
            "monogk" => ("u".into(), "s"),
            "mononum" => ("m".into(), "n"),
            "arb" => {
                if rng.chance(3, 4) {
                    ("u".into(), "s")
                } else {
                    ("m".into(), "n")
                }
            }
            _ => {
                let j = match rng.below(6) {
                    0 => "u".to_string(),
                    1 => "i".to_string(),
                    2 => "x".to_string(),
                    3 => "m".to_string(),
                    4 => "e".to_string(),
                    _ => format!("c{}", rng.below(1 << k)),
                };
                // unlawful orders run the backward solver into its (default) step budget: rarely
                let c = if fwd || rng.chance(1, 40) { *rng.pick(&["s", "n", "z", "g"]) } else { *rng.pick(&["s", "n"]) };
                (j, c)
            }
        };
        let lub = (join == "u" && cmp == "s") || (join == "m" && cmp == "n");
        let mono = fam == "monogk" || fam == "mononum";
        // With `force` the stored state is join(new, old), which need not equal the recomputed one, so a
        // non-monotone analysis on a cyclic CFG is re-stored and re-queued until the step budget is exhausted.
        // The backward solver only has the default budget (250000; before the fix: none, it ran for ever), so
        // such cases are generated rarely there.
        let force = if !fwd && !mono { rng.chance(1, 60) } else { force };
        let _ = lub;
        let risky = fwd && ((force && !mono) || cmp == "z" || cmp == "g");
        let max: usize = if risky {
            *rng.pick(&[0, 1, 5, 30, 2000])
        } else {
            *rng.pick(&[0, 1, 5, 30, 250000, 250000, 250000])
        };
        let mk = |rng: &mut Rng| -> Table {
            match fam {
                "monogk" => mono_gk_table(rng, k),
                "mononum" => mono_num_table(rng, k),
                "arb" => arb_table(rng, k, true),
                _ => {
                    if rng.chance(1, 2) {
                        mono_gk_table(rng, k)
                    } else {
                        arb_table(rng, k, true)
                    }
                }
            }
        };
        let dflt = mk(rng);
        let mut ats: Vec<String> = Vec::new();
        for l in f.locations() {
            if rng.chance(3, 5) {
                let o: FunctionLocation = l.into();
                let os = match &o {
                    FunctionLocation::Instruction(b, i) => format!("(i {} {})", b, i),
                    FunctionLocation::Edge(h, t) => format!("(e {} {})", h, t),
                    FunctionLocation::EmptyBlock(b) => format!("(b {})", b),
                };
                ats.push(format!("(at {} {})", os, table_str(&mk(rng))));
            }
        }
        let req = format!(
            "fp {} {} {} {} {} {} {} (def {}){}{}",
            if fwd { "f" } else { "b" },
            if force { 1 } else { 0 },
            if fwd { max.to_string() } else { "-".to_string() },
            join,
            cmp,
            k,
            function_str(&f),
            table_str(&dflt),
            if ats.is_empty() { "" } else { " " },
            ats.join(" ")
        );
        if std::env::var("VERIF_TRACE").is_ok() {
            eprintln!("{}", req);
        }
        // non-triviality flag: some location was recomputed at least twice
        let mut flags = shape_flags(&f);
        if let Some(r) = read_req(&req) {
            let _ = fvh::canon::catch(|| run(&r));
            if r.tab.calls.borrow().values().any(|c| *c >= 3) {
                flags.push('r');
            }
        }
        if flags.is_empty() {
            flags.push('0');
        }
        let budget = if !fwd {
            "default".to_string()
        } else if max >= 2000 {
            "big".to_string()
        } else {
            format!("b{}", max)
        };
        let cls = format!(
            "{}/{}/{}/{}/{}/{}",
            if fwd { "fwd" } else { "bwd" },
            fam,
            if force { "force" } else { "strict" },
            budget,
            if ill { "dupidx" } else { "wf" },
            flags
        );
        em.case(&cls, req);
    }
}

fn main() {
    run_main(&generate, &answer);
}
