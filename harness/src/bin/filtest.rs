//! self-test of the FIL printer/reader pair: print(read(print(f))) == print(f) on random programs,
//! and the printed lines are also fed to the Lean side (Drivers/FilTest.lean echoes its parse).
use fvh::fil::{function_str, program_str, read_function, read_program};
use fvh::genil::{gen_function, gen_program, GenCfg};
use fvh::sx::parse_all;
use fvh::Rng;

fn main() {
    let n: u64 = std::env::args().nth(1).and_then(|s| s.parse().ok()).unwrap_or(200);
    let mut rng = Rng::new(7);
    let g = GenCfg { branch: true, ..GenCfg::default() };
    let mut bad = 0;
    for i in 0..n {
        let line = if i % 2 == 0 {
            let mut f = gen_function(&mut rng, &g);
            if i % 4 == 0 {
                // produce gaps in the block indices
                let mut cfg = f.control_flow_graph().clone();
                let before = function_str(&f);
                if let Err(e) = cfg.merge() {
                    eprintln!("MERGE-ERR {:?}\n {}", e, before);
                    continue;
                }
                if cfg.exit().map(|x| cfg.block(x).is_err()).unwrap_or(false) {
                    continue; // dangling exit after merge (C15 finding), not representable
                }
                f = falcon::il::Function::new(f.address(), cfg);
            }
            let s = function_str(&f);
            let back = read_function(&parse_all(&s).unwrap()[0]).map(|f| function_str(&f));
            if back.as_deref() != Some(&s) {
                eprintln!("MISMATCH\n {}\n {:?}", s, back);
                bad += 1;
            }
            s
        } else {
            let p = gen_program(&mut rng, &g, 3);
            let s = program_str(&p);
            let back = read_program(&parse_all(&s).unwrap()[0]).map(|p| program_str(&p));
            if back.as_deref() != Some(&s) {
                eprintln!("MISMATCH\n {}\n {:?}", s, back);
                bad += 1;
            }
            s
        };
        println!("{}", line);
    }
    if bad > 0 {
        eprintln!("{} mismatches", bad);
        std::process::exit(1);
    }
}
