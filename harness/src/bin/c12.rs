//! C12 — reaching definitions and the def-use / use-def chains cover every execution.
//!
//! request : one function in FIL  `(fn …)`
//! answer  : falcon's three analyses on it, canonical text
//!           `rd <entries> | ud <entries> | du <entries>`
//!           entries = `err:<kind>` or space-separated `<loc>=[<loc>,…]` sorted by location;
//!           loc = `i:<block>:<instruction index>` | `e:<head>:<tail>` | `b:<block>`
//! The Lean driver (lean/Drivers/C12.lean, DRIVER_TAKES_ANSWER) judges that output.
use falcon::analysis::{def_use, reaching_definitions, use_def, LocationSet};
use falcon::il::{self, Expression as E, Function, FunctionLocation, Operation, ProgramLocation};
use fvh::canon::err_str;
use fvh::fil::{function_str, read_function};
use fvh::genil::{gen_function, GenCfg};
use fvh::sx::parse_all;
use fvh::{run_main, Emit, Rng, Tier};
use std::collections::{BTreeMap, BTreeSet, HashMap};

fn key(l: &FunctionLocation) -> (u8, usize, usize) {
    match *l {
        FunctionLocation::Instruction(b, i) => (0, b, i),
        FunctionLocation::Edge(h, t) => (1, h, t),
        FunctionLocation::EmptyBlock(b) => (2, b, 0),
    }
}

type Key = (u8, usize, usize);
type RelMap = BTreeMap<Key, BTreeSet<Key>>;

fn key_str(k: &Key) -> String {
    match k.0 {
        0 => format!("i:{}:{}", k.1, k.2),
        1 => format!("e:{}:{}", k.1, k.2),
        _ => format!("b:{}", k.1),
    }
}

fn to_rel(m: &HashMap<ProgramLocation, LocationSet>) -> RelMap {
    m.iter()
        .map(|(k, v)| (key(k.function_location()), v.locations().iter().map(|d| key(d.function_location())).collect()))
        .collect()
}

fn rel_map_str(m: &RelMap) -> String {
    if m.is_empty() {
        return "-".to_string();
    }
    m.iter()
        .map(|(k, ds)| format!("{}=[{}]", key_str(k), ds.iter().map(key_str).collect::<Vec<_>>().join(",")))
        .collect::<Vec<_>>()
        .join(" ")
}

fn analyse(
    f: &Function,
    g: &dyn Fn(&Function) -> Result<HashMap<ProgramLocation, LocationSet>, falcon::Error>,
) -> Result<RelMap, String> {
    match fvh::canon::catch(|| g(f)) {
        None => Err("panic".to_string()),
        Some(Err(e)) => Err(err_str(&e).to_string()),
        Some(Ok(m)) => Ok(to_rel(&m)),
    }
}

/// the assignments and loads of the function
fn def_keys(f: &Function) -> Vec<Key> {
    let mut v = Vec::new();
    for b in f.control_flow_graph().blocks() {
        for i in b.instructions() {
            if matches!(i.operation(), Operation::Assign { .. } | Operation::Load { .. }) {
                v.push((0u8, b.index(), i.index()));
            }
        }
    }
    v
}

/// Self-test mutations of falcon's (correct) output; each must be caught by the judge when the function has
/// no intrinsics (then falcon's sets are exactly the must-sets) and, for `+rd`, no unreachable location.
///   -rd k : drop the k-th (location, assignment/load) pair from the reaching definitions   => missing-rd
///   +rd k : add the k-th absent (location, assignment/load) pair                            => spurious-rd
///   -ud k : drop the k-th (use, definition) pair from use-def AND def-use                   => missing-ud
///   ~du k : drop the k-th (definition, use) pair from def-use only                          => not-inverse
fn mutate(f: &Function, kind: &str, k: usize, rd: &mut RelMap, ud: &mut RelMap, du: &mut RelMap) -> bool {
    let pairs = |m: &RelMap| -> Vec<(Key, Key)> {
        m.iter().flat_map(|(a, bs)| bs.iter().map(move |b| (*a, *b))).collect()
    };
    let defs = def_keys(f);
    match kind {
        "-rd" => {
            let ps: Vec<(Key, Key)> = pairs(rd).into_iter().filter(|(_, d)| defs.contains(d)).collect();
            if ps.is_empty() {
                return false;
            }
            let (l, d) = ps[k % ps.len()];
            rd.get_mut(&l).unwrap().remove(&d);
            true
        }
        "+rd" => {
            if f.locations().len() != rd.len() {
                return false;
            }
            let mut ps: Vec<(Key, Key)> = Vec::new();
            for (l, ds) in rd.iter() {
                for d in &defs {
                    if !ds.contains(d) {
                        ps.push((*l, *d));
                    }
                }
            }
            if ps.is_empty() {
                return false;
            }
            let (l, d) = ps[k % ps.len()];
            rd.get_mut(&l).unwrap().insert(d);
            true
        }
        "-ud" => {
            let ps = pairs(ud);
            if ps.is_empty() {
                return false;
            }
            let (u, d) = ps[k % ps.len()];
            ud.get_mut(&u).unwrap().remove(&d);
            if let Some(s) = du.get_mut(&d) {
                s.remove(&u);
            }
            true
        }
        "~du" => {
            let ps = pairs(du);
            if ps.is_empty() {
                return false;
            }
            let (d, u) = ps[k % ps.len()];
            du.get_mut(&d).unwrap().remove(&u);
            true
        }
        _ => false,
    }
}

fn parse_request(req: &str) -> Option<(Option<(String, usize)>, Function)> {
    let v = parse_all(req)?;
    match v.len() {
        1 => Some((None, read_function(&v[0])?)),
        2 => {
            let m = v[0].list()?;
            if m.len() != 3 || m[0].atom()? != "mut" {
                return None;
            }
            Some((Some((m[1].atom()?.to_string(), m[2].usize()?)), read_function(&v[1])?))
        }
        _ => None,
    }
}

fn answer(req: &str) -> String {
    let (mutation, f) = match parse_request(req) {
        Some(x) => x,
        None => return "bad-request".to_string(),
    };
    let mut rd = analyse(&f, &|f| reaching_definitions(f));
    let mut ud = analyse(&f, &|f| use_def(f));
    let mut du = analyse(&f, &|f| def_use(f));
    if let Some((kind, k)) = mutation {
        if let (Ok(rd), Ok(ud), Ok(du)) = (&mut rd, &mut ud, &mut du) {
            mutate(&f, &kind, k, rd, ud, du);
        }
    }
    let show = |r: &Result<RelMap, String>| match r {
        Ok(m) => rel_map_str(m),
        Err(e) => e.clone(),
    };
    format!("rd {} | ud {} | du {}", show(&rd), show(&ud), show(&du))
}

// ------------------------------------------------------------------------------------------------

fn distinct_reads(op: &Operation) -> Vec<il::Scalar> {
    let mut v: Vec<il::Scalar> = op.scalars_read().unwrap_or_default().into_iter().cloned().collect();
    v.sort();
    v.dedup();
    v
}

/// the shape of a function: which of the features the property names are present
fn features(f: &Function) -> String {
    let cfg = f.control_flow_graph();
    let (mut m, mut s, mut i, mut j, mut g, mut e, mut c, mut x) =
        (false, false, false, false, false, false, false, false);
    for b in cfg.blocks() {
        if b.instructions().is_empty() {
            e = true;
        }
        for (pos, ins) in b.instructions().iter().enumerate() {
            if ins.index() != pos {
                x = true;
            }
            let op = ins.operation();
            let reads = distinct_reads(op);
            if reads.len() >= 2 {
                m = true;
            }
            if let Some(ws) = op.scalars_written() {
                if ws.iter().any(|w| reads.contains(w)) {
                    s = true;
                }
            }
            if let Operation::Intrinsic { intrinsic } = op {
                if intrinsic.scalars_written().is_some() {
                    i = true;
                } else {
                    j = true;
                }
            }
        }
    }
    for ed in cfg.edges() {
        if ed.condition().map(|c| !c.scalars().is_empty()).unwrap_or(false) {
            g = true;
        }
        if ed.tail() <= ed.head() {
            c = true;
        }
    }
    let mut t = String::new();
    for (flag, ch) in [(m, 'm'), (s, 's'), (i, 'i'), (j, 'j'), (g, 'g'), (e, 'e'), (c, 'c'), (x, 'x')] {
        if flag {
            t.push(ch);
        }
    }
    if t.is_empty() {
        t.push('0');
    }
    t
}

fn emit_fn(emit: &mut Emit, stream: &str, f: &Function) {
    emit.case(&format!("{}/{}", stream, features(f)), function_str(f));
}

/// small hand-shaped functions around the situations the property names
fn shaped(rng: &mut Rng, emit: &mut Emit) {
    let s = |n: &str| il::scalar(n, 32);
    let es = |n: &str| il::expr_scalar(n, 32);
    let k = |v: u64| il::expr_const(v, 32);
    // 1. straight line: two definitions, one use of both
    {
        let mut cfg = il::ControlFlowGraph::new();
        let b = cfg.new_block().unwrap();
        b.assign(s("a"), k(1));
        b.assign(s("b"), k(2));
        b.assign(s("c"), E::add(es("a"), es("b")).unwrap());
        b.store(es("c"), es("a"));
        cfg.set_entry(0).unwrap();
        emit_fn(emit, "shaped", &Function::new(0, cfg));
    }
    // 2. self update after a definition, in a loop and outside
    for looped in [false, true] {
        let mut cfg = il::ControlFlowGraph::new();
        {
            let b = cfg.new_block().unwrap();
            b.assign(s("a"), k(7));
        }
        {
            let b = cfg.new_block().unwrap();
            b.assign(s("a"), E::sub(es("a"), k(4)).unwrap());
            b.assign(s("b"), es("a"));
        }
        cfg.new_block().unwrap();
        cfg.unconditional_edge(0, 1).unwrap();
        if looped {
            let c = E::cmpltu(es("a"), k(100)).unwrap();
            cfg.conditional_edge(1, 1, c.clone()).unwrap();
            cfg.conditional_edge(1, 2, E::cmpeq(c, il::expr_const(0, 1)).unwrap()).unwrap();
        } else {
            cfg.unconditional_edge(1, 2).unwrap();
        }
        cfg.set_entry(0).unwrap();
        emit_fn(emit, "shaped", &Function::new(0, cfg));
    }
    // 3. diamond, guard reading a freshly written scalar, join reading both arms' definitions
    {
        let mut cfg = il::ControlFlowGraph::new();
        {
            let b = cfg.new_block().unwrap();
            b.assign(s("a"), es("in"));
            b.assign(s("b"), k(4));
        }
        {
            let b = cfg.new_block().unwrap();
            b.assign(s("c"), es("b"));
        }
        {
            let b = cfg.new_block().unwrap();
            b.load(s("c"), es("a"));
        }
        {
            let b = cfg.new_block().unwrap();
            b.assign(s("d"), E::mul(es("c"), es("b")).unwrap());
        }
        let c = E::cmpltu(es("a"), es("b")).unwrap();
        cfg.conditional_edge(0, 1, c.clone()).unwrap();
        cfg.conditional_edge(0, 2, E::cmpeq(c, il::expr_const(0, 1)).unwrap()).unwrap();
        cfg.unconditional_edge(1, 3).unwrap();
        cfg.unconditional_edge(2, 3).unwrap();
        cfg.set_entry(0).unwrap();
        emit_fn(emit, "shaped", &Function::new(0, cfg));
    }
    // 4. intrinsics: declared writes [a, b], declared write [a], undeclared; followed by uses
    for variant in 0..3 {
        let mut cfg = il::ControlFlowGraph::new();
        {
            let b = cfg.new_block().unwrap();
            b.assign(s("a"), k(1));
            b.assign(s("b"), k(2));
            let w = match variant {
                0 => Some(vec![es("a"), es("b")]),
                1 => Some(vec![es("a")]),
                _ => None,
            };
            let r = if rng.chance(1, 2) { Some(vec![es("a"), es("b")]) } else { None };
            b.intrinsic(il::Intrinsic::new("intr", "intr", Vec::new(), w, r, vec![0x0f, 0x05]));
            b.assign(s("c"), es("a"));
            b.assign(s("d"), E::xor(es("a"), es("b")).unwrap());
        }
        cfg.set_entry(0).unwrap();
        emit_fn(emit, "shaped", &Function::new(0, cfg));
    }
    // 5. empty entry block inside a loop
    {
        let mut cfg = il::ControlFlowGraph::new();
        cfg.new_block().unwrap();
        {
            let b = cfg.new_block().unwrap();
            b.assign(s("a"), E::add(es("a"), es("b")).unwrap());
        }
        cfg.unconditional_edge(0, 1).unwrap();
        cfg.unconditional_edge(1, 0).unwrap();
        cfg.set_entry(0).unwrap();
        emit_fn(emit, "shaped", &Function::new(0, cfg));
    }
    // 6. no entry
    {
        let mut cfg = il::ControlFlowGraph::new();
        let b = cfg.new_block().unwrap();
        b.assign(s("a"), k(1));
        emit_fn(emit, "noentry", &Function::new(0, cfg));
    }
}

fn configs() -> Vec<(&'static str, GenCfg)> {
    let base = GenCfg { branch: false, ..GenCfg::default() };
    let w32 = |ns: &[&str]| -> Vec<(String, usize)> {
        let mut v: Vec<(String, usize)> = ns.iter().map(|n| (n.to_string(), 32)).collect();
        v.push(("f".to_string(), 1));
        v
    };
    vec![
        ("gen", base.clone()),
        // few names of one width: many instructions read two or three scalars, definitions kill each other
        ("dense", GenCfg { names: w32(&["a", "b", "c"]), intrinsic: false, max_blocks: 6, ..base.clone() }),
        ("tiny", GenCfg { names: w32(&["a", "b"]), max_blocks: 3, max_instrs: 3, expr_depth: 1, ..base.clone() }),
        ("intr", GenCfg { names: w32(&["a", "b", "c", "d"]), mem: false, ..base.clone() }),
        ("branch", GenCfg { branch: true, partition_guards: false, ..base.clone() }),
        ("large", GenCfg { max_blocks: 14, max_instrs: 6, ..base }),
    ]
}

/// removing an instruction leaves a gap in the instruction indices of its block
fn with_gap(rng: &mut Rng, f: &Function) -> Function {
    let mut f = f.clone();
    let idxs: Vec<usize> = f.control_flow_graph().blocks().iter().map(|b| b.index()).collect();
    for _ in 0..2 {
        let b = *rng.pick(&idxs);
        if let Ok(block) = f.block_mut(b) {
            let n = block.instructions().len();
            if n >= 2 {
                let i = block.instructions()[rng.below(n as u64) as usize].index();
                let _ = block.remove_instruction(i);
            }
        }
    }
    f
}

fn generate(tier: Tier, rng: &mut Rng, emit: &mut Emit) {
    shaped(rng, emit);
    let n = match tier {
        Tier::Quick => 6000,
        Tier::Thorough => 100_000,
    };
    let cfgs = configs();
    for k in 0..n {
        let (name, g) = &cfgs[match k % 10 {
            0..=2 => 0,
            3..=4 => 1,
            5 => 2,
            6..=7 => 3,
            8 => 4,
            _ => 5,
        }];
        let mut f = gen_function(rng, g);
        if rng.chance(1, 10) {
            f = with_gap(rng, &f);
        }
        emit_fn(emit, name, &f);
        // self-test of the judge: a mutated copy of falcon's answer must be rejected with the expected verdict
        if *name == "dense" && k % 20 == 3 {
            selftest(rng, emit, &f);
        }
    }
}

fn selftest(rng: &mut Rng, emit: &mut Emit, f: &Function) {
    let (rd, ud, du) = match (
        analyse(f, &|f| reaching_definitions(f)),
        analyse(f, &|f| use_def(f)),
        analyse(f, &|f| def_use(f)),
    ) {
        (Ok(a), Ok(b), Ok(c)) => (a, b, c),
        _ => return,
    };
    for (kind, expect) in [("-rd", "missing-rd"), ("+rd", "spurious-rd"), ("-ud", "missing-ud"), ("~du", "not-inverse")] {
        let k = rng.below(1000) as usize;
        let (mut a, mut b, mut c) = (rd.clone(), ud.clone(), du.clone());
        if mutate(f, kind, k, &mut a, &mut b, &mut c) {
            emit.case(&format!("selftest/{}", expect), format!("(mut {} {}) {}", kind, k, function_str(f)));
        }
    }
}

fn main() {
    run_main(&generate, &answer);
}
