//! The case sink and the command line shared by every property binary.
//!
//!   cXX gen    --tier quick|thorough --seed N --out FILE [--stats FILE]
//!       writes one case per line:  <class> TAB <request> TAB <falcon's answer>
//!   cXX answer            (requests on stdin, one per line; falcon's answer per line on stdout)
//!
//! `generate` only produces (class, request) pairs; falcon's answer always comes from `answer(request)`,
//! the same function `cXX answer` uses, so a request line replays exactly.
use crate::rng::Rng;
use std::collections::BTreeMap;
use std::io::{BufRead, Write};

#[derive(Clone, Copy, PartialEq, Debug)]
pub enum Tier {
    Quick,
    Thorough,
}

pub struct Emit<'a> {
    out: Box<dyn Write + 'a>,
    answer: &'a dyn Fn(&str) -> String,
    pub classes: BTreeMap<String, u64>,
    pub count: u64,
    /// `<out>.current`: the case falcon is answering right now, so that `check` can name the input when the whole
    /// process dies (stack overflow, abort, allocation failure)
    current: Option<std::fs::File>,
}

impl<'a> Emit<'a> {
    /// `class`: the shape of the case (used for finding signatures and the distribution report)
    pub fn case(&mut self, class: &str, req: String) {
        debug_assert!(!req.contains('\t') && !req.contains('\n'));
        if let Some(f) = self.current.as_mut() {
            use std::io::{Seek, SeekFrom};
            let line = format!("{}\t{}\n", class, req);
            let _ = f.seek(SeekFrom::Start(0));
            let _ = f.write_all(line.as_bytes());
            let _ = f.set_len(line.len() as u64);
        }
        let ans = crate::canon::catch(|| (self.answer)(&req)).unwrap_or_else(|| "panic".to_string());
        if let Some(f) = self.current.as_mut() {
            let _ = f.set_len(0); // answered: a death from here on is not about this request
        }
        writeln!(self.out, "{}\t{}\t{}", class, req, ans).unwrap();
        *self.classes.entry(class.to_string()).or_insert(0) += 1;
        self.count += 1;
    }
}

pub fn run_main(
    generate: &dyn Fn(Tier, &mut Rng, &mut Emit),
    answer: &dyn Fn(&str) -> String,
) {
    crate::canon::quiet_panics();
    let args: Vec<String> = std::env::args().collect();
    let get = |k: &str| -> Option<String> {
        args.iter().position(|a| a == k).and_then(|i| args.get(i + 1).cloned())
    };
    match args.get(1).map(|s| s.as_str()) {
        Some("gen") => {
            let tier = match get("--tier").as_deref() {
                Some("thorough") => Tier::Thorough,
                _ => Tier::Quick,
            };
            let seed: u64 = get("--seed").and_then(|s| s.parse().ok()).unwrap_or(1);
            let out_path = get("--out").expect("--out FILE");
            let file = std::io::BufWriter::new(std::fs::File::create(&out_path).expect("create --out"));
            let mut rng = Rng::new(seed);
            let current = std::fs::File::create(format!("{}.current", out_path)).ok();
            let mut emit = Emit { out: Box::new(file), answer, classes: BTreeMap::new(), count: 0, current };
            generate(tier, &mut rng, &mut emit);
            emit.out.flush().unwrap();
            let _ = std::fs::remove_file(format!("{}.current", out_path));
            if let Some(stats) = get("--stats") {
                let mut f = std::fs::File::create(stats).unwrap();
                let body: Vec<String> =
                    emit.classes.iter().map(|(k, v)| format!("  {:?}: {}", k, v)).collect();
                writeln!(f, "{{\n{}\n}}", body.join(",\n")).unwrap();
            }
        }
        Some("answer") => {
            let stdin = std::io::stdin();
            let stdout = std::io::stdout();
            let mut out = stdout.lock();
            for line in stdin.lock().lines() {
                let line = line.unwrap();
                let ans = crate::canon::catch(|| answer(&line)).unwrap_or_else(|| "panic".to_string());
                writeln!(out, "{}", ans).unwrap();
            }
        }
        _ => {
            eprintln!("usage: gen --tier T --seed N --out FILE [--stats FILE] | answer");
            std::process::exit(2);
        }
    }
}
