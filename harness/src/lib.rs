//! fvh — shared parts of the correspondence harness (DESIGN §2): PRNG, canonical printers, the FIL
//! reader/printer, the case sink and the command line every `src/bin/cXX.rs` uses.
pub mod canon;
pub mod cases;
pub mod fil;
pub mod genil;
pub mod lift;
pub mod rng;
pub mod sx;

pub use cases::{run_main, Emit, Tier};
pub use rng::Rng;
