//! Shared by the lifter checks (C01, C02, C03, C05, C06): lifting one block with the real translators,
//! printing the `BlockTranslationResult` in FIL, and executing it with falcon's own executor
//! (`executor::Driver::step` over `memory::paged::Memory`) from a given machine state.
//!
//!   btr   := (btr <addr> <length> (fn <ins addr> - <entry> <exit> <n> 0 blk* edge*)* (succ <addr> <-|cond>)*)
//!   state := <endian l|b> ; reg=0xval:bits,... ; addr:hexbytes,...      (three `;`-separated fields)
//!   post  := next=<0xaddr|->,... ; reg=0x..:bits,... ; addr:hexbytes,...  (same shape, plus `next`)
use crate::canon::{catch, const_str, err_str, parse_const};
use crate::fil::{edge_str, blk_str, expr_str};
use falcon::architecture::{self, Architecture, Endian};
use falcon::executor::{Driver, Memory, State};
use falcon::il::{self, ControlFlowGraph, Function, FunctionLocation, Operation, Program, ProgramLocation, RefFunctionLocation};
use falcon::translator::{BlockTranslationResult, Options, OptionsBuilder};
use falcon::RC;
use std::collections::BTreeMap;

pub const ARCHS: [&str; 7] = ["x86", "amd64", "mips", "mipsel", "ppc", "aarch64", "aarch64eb"];

pub fn arch(name: &str) -> Option<RC<dyn Architecture>> {
    Some(match name {
        "x86" => RC::new(architecture::X86::new()),
        "amd64" => RC::new(architecture::Amd64::new()),
        "mips" => RC::new(architecture::Mips::new()),
        "mipsel" => RC::new(architecture::Mipsel::new()),
        "ppc" => RC::new(architecture::Ppc::new()),
        "aarch64" => RC::new(architecture::AArch64::new()),
        "aarch64eb" => RC::new(architecture::AArch64Eb::new()),
        _ => return None,
    })
}

pub fn options(unsupported_are_intrinsics: bool) -> Options {
    OptionsBuilder::new().unsupported_are_intrinsics(unsupported_are_intrinsics).build()
}

pub fn hex_bytes(s: &str) -> Option<Vec<u8>> {
    if s.len() % 2 != 0 {
        return None;
    }
    (0..s.len() / 2).map(|i| u8::from_str_radix(&s[2 * i..2 * i + 2], 16).ok()).collect()
}

pub fn bytes_hex(b: &[u8]) -> String {
    b.iter().map(|x| format!("{:02x}", x)).collect()
}

/// `translate_block` under catch_unwind: Ok(result) | Err("err:…") | Err("panic")
pub fn lift_block(a: &dyn Architecture, bytes: &[u8], addr: u64, opts: &Options) -> Result<BlockTranslationResult, String> {
    match catch(|| a.translator().translate_block(bytes, addr, opts)) {
        None => Err(format!("panic@{}", crate::canon::last_panic())),
        Some(Err(e)) => Err(err_str(&e).to_string()),
        Some(Ok(r)) => Ok(r),
    }
}

pub fn graph_str(addr: u64, cfg: &ControlFlowGraph) -> String {
    let idxs: Vec<usize> = cfg.blocks().iter().map(|b| b.index()).collect();
    let o = |x: Option<usize>| x.map(|v| v.to_string()).unwrap_or_else(|| "-".to_string());
    let mut parts = vec![
        "(fn".to_string(),
        format!("0x{:x}", addr),
        "-".to_string(),
        o(cfg.entry()),
        o(cfg.exit()),
        idxs.iter().max().map(|m| m + 1).unwrap_or(0).to_string(),
        "0".to_string(),
    ];
    for b in cfg.blocks() {
        parts.push(blk_str(b, &idxs, None));
    }
    for e in cfg.edges() {
        parts.push(edge_str(e));
    }
    parts.join(" ") + ")"
}

pub fn btr_str(r: &BlockTranslationResult) -> String {
    let mut parts = vec!["(btr".to_string(), format!("0x{:x}", r.address()), r.length().to_string()];
    for (a, g) in r.instructions() {
        parts.push(graph_str(*a, g));
    }
    for (a, c) in r.successors() {
        parts.push(format!("(succ 0x{:x} {})", a, c.as_ref().map(expr_str).unwrap_or_else(|| "-".to_string())));
    }
    parts.join(" ") + ")"
}

#[derive(Clone, Debug)]
pub struct MachState {
    pub endian: Endian,
    pub regs: Vec<(String, il::Constant)>,
    pub mem: Vec<(u64, Vec<u8>)>,
}

impl MachState {
    pub fn parse(s: &str) -> Option<MachState> {
        let f: Vec<&str> = s.split(';').map(|x| x.trim()).collect();
        if f.len() != 3 {
            return None;
        }
        let endian = match f[0] {
            "l" => Endian::Little,
            "b" => Endian::Big,
            _ => return None,
        };
        let mut regs = Vec::new();
        for kv in f[1].split(',').filter(|x| !x.is_empty()) {
            let (k, v) = kv.split_once('=')?;
            regs.push((k.to_string(), parse_const(v)?));
        }
        let mut mem = Vec::new();
        for kv in f[2].split(',').filter(|x| !x.is_empty()) {
            let (k, v) = kv.split_once(':')?;
            let a = u64::from_str_radix(k.trim_start_matches("0x"), 16).ok()?;
            mem.push((a, hex_bytes(v)?));
        }
        Some(MachState { endian, regs, mem })
    }

    pub fn to_string(&self) -> String {
        let e = if self.endian == Endian::Little { "l" } else { "b" };
        let r: Vec<String> = self.regs.iter().map(|(k, v)| format!("{}={}", k, const_str(v))).collect();
        let m: Vec<String> = self.mem.iter().map(|(a, b)| format!("0x{:x}:{}", a, bytes_hex(b))).collect();
        format!("{} ; {} ; {}", e, r.join(","), m.join(","))
    }

    pub fn memory(&self) -> Memory {
        let mut m = Memory::new(self.endian.clone());
        for (a, bytes) in &self.mem {
            for (i, b) in bytes.iter().enumerate() {
                m.store(a + i as u64, il::const_(*b as u64, 8)).unwrap();
            }
        }
        m
    }
}

/// all scalar names (with widths) written or read anywhere in the lifted block
pub fn scalars_of(r: &BlockTranslationResult) -> BTreeMap<String, usize> {
    let mut out = BTreeMap::new();
    let mut add = |s: &il::Scalar| {
        out.insert(s.name().to_string(), s.bits());
    };
    for (_, g) in r.instructions() {
        for b in g.blocks() {
            for i in b.instructions() {
                if let Some(v) = i.operation().scalars_read() {
                    v.into_iter().for_each(&mut add);
                }
                if let Some(v) = i.operation().scalars_written() {
                    v.into_iter().for_each(&mut add);
                }
            }
        }
        for e in g.edges() {
            if let Some(c) = e.condition() {
                c.scalars().into_iter().for_each(&mut add);
            }
        }
    }
    for (_, c) in r.successors() {
        if let Some(c) = c {
            c.scalars().into_iter().for_each(&mut add);
        }
    }
    out
}

/// Executes the lifted block with falcon's executor.  The instruction graphs are chained exactly as
/// `translate_function_extended` chains them (insert + unconditional edge), every successor gets a terminal
/// block holding one `nop` whose address is the successor address; the run stops when it reaches a
/// terminal block (next pc = that address), at an `Operation::Branch` (next pc = the evaluated target),
/// or with the executor's error.  `watch`: scalar names to report.  Returns the canonical post-state line.
pub fn exec_btr(a: &RC<dyn Architecture>, r: &BlockTranslationResult, st: &MachState, watch: &[String], max_steps: usize) -> String {
    let built = catch(|| -> Result<(Function, BTreeMap<usize, u64>), falcon::Error> {
        let mut cfg = ControlFlowGraph::new();
        let mut prev: Option<usize> = None;
        let mut first: Option<usize> = None;
        for (_, g) in r.instructions() {
            let (en, ex) = cfg.insert(g)?;
            if let Some(p) = prev {
                cfg.unconditional_edge(p, en)?;
            } else {
                first = Some(en);
            }
            prev = Some(ex);
        }
        let mut terminals = BTreeMap::new();
        if let Some(p) = prev {
            for (addr, cond) in r.successors() {
                let t = {
                    let b = cfg.new_block()?;
                    b.nop();
                    b.index()
                };
                cfg.block_mut(t)?.instructions_mut()[0].set_address(Some(*addr));
                terminals.insert(t, *addr);
                match cond {
                    Some(c) => cfg.conditional_edge(p, t, c.clone())?,
                    None => cfg.unconditional_edge(p, t)?,
                }
            }
        }
        if let Some(f) = first {
            cfg.set_entry(f)?;
        }
        Ok((Function::new(r.address(), cfg), terminals))
    });
    let (function, terminals) = match built {
        None => return "build-panic".to_string(),
        Some(Err(e)) => return format!("build-{}", err_str(&e)),
        Some(Ok(x)) => x,
    };
    let entry = match function.control_flow_graph().entry() {
        Some(e) => e,
        None => return post_line(&[], st, watch, None),
    };
    let loc = {
        let b = function.block(entry).unwrap();
        if b.is_empty() {
            ProgramLocation::new(Some(0), FunctionLocation::EmptyBlock(entry))
        } else {
            ProgramLocation::new(Some(0), FunctionLocation::Instruction(entry, b.instructions()[0].index()))
        }
    };
    let mut program = Program::new();
    program.add_function(function);
    let mut state = State::new(st.memory());
    for (k, v) in &st.regs {
        state.set_scalar(k.clone(), v.clone());
    }
    let mut driver = Driver::new(RC::new(program), loc, state, a.clone());
    let mut next: Vec<String> = Vec::new();
    let mut outcome: Option<String> = None;
    for _ in 0..max_steps {
        // where are we?
        let here = {
            let l = match driver.location().apply(driver.program()) {
                Ok(l) => l,
                Err(e) => {
                    outcome = Some(err_str(&e).to_string());
                    break;
                }
            };
            match l.function_location() {
                RefFunctionLocation::Instruction(b, i) => {
                    if let Some(addr) = terminals.get(&b.index()) {
                        Some(Ok(*addr))
                    } else if let Operation::Branch { target } = i.operation() {
                        Some(match driver.state().symbolize_and_eval(target) {
                            Ok(c) => c.value_u64().ok_or_else(|| "err:addrbits".to_string()),
                            Err(e) => Err(err_str(&e).to_string()),
                        })
                    } else {
                        None
                    }
                }
                _ => None,
            }
        };
        match here {
            Some(Ok(addr)) => {
                next.push(format!("0x{:x}", addr));
                break;
            }
            Some(Err(e)) => {
                outcome = Some(e);
                break;
            }
            None => {}
        }
        match catch(|| driver.clone().step()) {
            None => {
                outcome = Some("panic".to_string());
                break;
            }
            Some(Err(e)) => {
                outcome = Some(err_str(&e).to_string());
                break;
            }
            Some(Ok(d)) => driver = d,
        }
    }
    if next.is_empty() && outcome.is_none() {
        outcome = Some("err:steps".to_string());
    }
    let regs: Vec<(String, Option<il::Constant>)> =
        watch.iter().map(|n| (n.clone(), driver.state().get_scalar(n).cloned())).collect();
    let mut mem_out = Vec::new();
    for (a0, bytes) in &st.mem {
        let mut v = Vec::new();
        for i in 0..bytes.len() {
            match driver.state().memory().load(a0 + i as u64, 8) {
                Ok(Some(c)) => v.push(c.value_u64().unwrap_or(0) as u8),
                _ => v.push(0),
            }
        }
        mem_out.push((*a0, v));
    }
    let head = match outcome {
        Some(o) => o,
        None => next.join(","),
    };
    let r: Vec<String> = regs
        .iter()
        .map(|(k, v)| format!("{}={}", k, v.as_ref().map(const_str).unwrap_or_else(|| "-".to_string())))
        .collect();
    let m: Vec<String> = mem_out.iter().map(|(a, b)| format!("0x{:x}:{}", a, bytes_hex(b))).collect();
    format!("next={} ; {} ; {}", head, r.join(","), m.join(","))
}

fn post_line(_: &[u8], st: &MachState, watch: &[String], _n: Option<u64>) -> String {
    let r: Vec<String> = watch
        .iter()
        .map(|n| {
            let v = st.regs.iter().find(|(k, _)| k == n).map(|(_, v)| const_str(v)).unwrap_or_else(|| "-".to_string());
            format!("{}={}", n, v)
        })
        .collect();
    let m: Vec<String> = st.mem.iter().map(|(a, b)| format!("0x{:x}:{}", a, bytes_hex(b))).collect();
    format!("next=- ; {} ; {}", r.join(","), m.join(","))
}
