//! Canonical text for answers: constants `0x<hex>:<bits>`, errors as a small enum, panics as `panic`.
use falcon::il;
use falcon::Error;
use std::panic::{catch_unwind, AssertUnwindSafe};

pub fn err_str(e: &Error) -> &'static str {
    match e {
        Error::Sort => "err:sort",
        Error::DivideByZero => "err:div0",
        Error::ExecutorScalar(_) => "err:scalar",
        Error::AccessUnmappedMemory(_) | Error::ExecutorInvalidAddress => "err:unmapped",
        Error::UnhandledIntrinsic(_) => "err:intrinsic",
        Error::ExecutorNoValidLocation | Error::ExecutorNoEdgeCondition => "err:noedge",
        Error::TooManyAddressBits => "err:addrbits",
        Error::Chain(a, _) => err_str(a),
        _ => "err:other",
    }
}

pub fn const_str(c: &il::Constant) -> String {
    format!("0x{:x}:{}", c.value(), c.bits())
}

/// `0xff:8` -> Constant (value reduced by `new_big`, as every falcon constructor does)
pub fn parse_const(s: &str) -> Option<il::Constant> {
    let (v, b) = s.split_once(':')?;
    Some(il::Constant::new_big(crate::sx::parse_nat(v)?, b.parse().ok()?))
}

/// run `f`, turning a Rust panic into `None`; the default panic hook is silenced by `quiet_panics`
pub fn catch<T>(f: impl FnOnce() -> T) -> Option<T> {
    catch_unwind(AssertUnwindSafe(f)).ok()
}

pub fn quiet_panics() {
    std::panic::set_hook(Box::new(|_| {}));
}

pub fn res_const(r: Option<Result<il::Constant, Error>>) -> String {
    match r {
        None => "panic".to_string(),
        Some(Ok(c)) => const_str(&c),
        Some(Err(e)) => err_str(&e).to_string(),
    }
}
