//! Canonical text for answers: constants `0x<hex>:<bits>`, errors as a small enum, panics as `panic`.
use falcon::il;
use falcon::Error;
use std::panic::{catch_unwind, AssertUnwindSafe};

pub fn err_str(e: &Error) -> &'static str {
    match e {
        Error::Sort => "err:sort",
        Error::DivideByZero => "err:div0",
        Error::ExecutorScalar(_) => "err:scalar",
        Error::AccessUnmappedMemory(_) | Error::ExecutorInvalidAddress => "err:unmapped",
        Error::UnhandledIntrinsic(_) => "err:intrinsic",
        Error::ExecutorNoValidLocation | Error::ExecutorNoEdgeCondition => "err:noedge",
        Error::TooManyAddressBits => "err:addrbits",
        Error::Chain(a, _) => err_str(a),
        _ => "err:other",
    }
}

pub fn const_str(c: &il::Constant) -> String {
    format!("0x{:x}:{}", c.value(), c.bits())
}

/// `0xff:8` -> Constant (value reduced by `new_big`, as every falcon constructor does)
pub fn parse_const(s: &str) -> Option<il::Constant> {
    let (v, b) = s.split_once(':')?;
    Some(il::Constant::new_big(crate::sx::parse_nat(v)?, b.parse().ok()?))
}

/// run `f`, turning a Rust panic into `None`; the default panic hook is silenced by `quiet_panics`
pub fn catch<T>(f: impl FnOnce() -> T) -> Option<T> {
    CATCH_DEPTH.with(|d| d.set(d.get() + 1));
    let r = catch_unwind(AssertUnwindSafe(f)).ok();
    CATCH_DEPTH.with(|d| d.set(d.get() - 1));
    r
}

thread_local! {
    static LAST_PANIC: std::cell::RefCell<String> = std::cell::RefCell::new(String::new());
    static CATCH_DEPTH: std::cell::Cell<u32> = std::cell::Cell::new(0);
}

/// where and why the most recent panic on this thread happened, without line numbers or values:
/// `translator/mips/mod.rs:attempt_to_add_with_overflow` (stable enough to serve in a finding signature)
pub fn last_panic() -> String {
    LAST_PANIC.with(|p| p.borrow().clone())
}

pub fn quiet_panics() {
    let verbose = std::env::var("FVH_PANIC_MSG").is_ok();
    std::panic::set_hook(Box::new(move |info| {
        let file = info.location().map(|l| l.file().to_string()).unwrap_or_default();
        let file = file.rsplit("/lib/").next().unwrap_or("").to_string();
        let msg = if let Some(s) = info.payload().downcast_ref::<&str>() {
            s.to_string()
        } else if let Some(s) = info.payload().downcast_ref::<String>() {
            s.clone()
        } else {
            "panic".to_string()
        };
        let msg: String = msg
            .chars()
            .map(|c| if c.is_ascii_alphabetic() { c } else { '_' })
            .collect::<String>()
            .split('_')
            .filter(|w| !w.is_empty())
            .take(8)
            .collect::<Vec<_>>()
            .join("_");
        // a panic outside `catch` ends the process (exit 101): say where, `check` puts it in the replay file
        if verbose || CATCH_DEPTH.with(|d| d.get()) == 0 {
            eprintln!("PANIC {}", info.to_string().replace('\n', " "));
        }
        LAST_PANIC.with(|p| *p.borrow_mut() = format!("{}:{}", file, msg));
    }));
}

pub fn res_const(r: Option<Result<il::Constant, Error>>) -> String {
    match r {
        None => "panic".to_string(),
        Some(Ok(c)) => const_str(&c),
        Some(Err(e)) => err_str(&e).to_string(),
    }
}
